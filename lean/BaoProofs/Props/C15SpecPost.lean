import BaoProofs.Lemmas.SpecPostL

/-!
# The executable specification predicate of the post-order plan never rejects the model

The correspondence driver judges the output of `BaoTree::post_order_chunks_iter` with
`Bao.Ops.planPostWF size bs plan : Option String` (`none` = well formed), written independently
of the model `(⟨size, bs⟩ : Tree).postOrderChunks`.  Here:

* `planPostWF_model` — "no false alarm": the predicate accepts the model plan
  (`size ≤ 2^63`, `bs ≤ 10`, the bounds of the C15Post theorems);
* one lemma per clause of the predicate (`clause_*`), each derived from a C15Post theorem;
* `planPostWF_none_iff'` / `planPostWF_sound_partial` — what a passing plan guarantees.

Clauses (`BaoProofs/Lemmas/SpecPostL.lean`): `LeavesTile`, `StackOk`, `RootLast`, `ParentsPersisted`,
`BothChildren`, `SpansOk` (the walk with a stack of chunk spans: every parent comes right after its
two subtrees).
-/

namespace Bao.SpecPost

open Bao Bao.NodeIterL Bao.Ops

/-! ## clause lemmas for the model plan -/

/-- clause 1 (from `C15Post.leaves_tile` and `C12.blocks_spec`): the leaves of the model plan are
the list the predicate wants -/
theorem clause_leaves (size bs : Nat) (hs : size ≤ 2 ^ 63) (hbs : bs ≤ 10) :
    LeavesTile size bs (Tree.postOrderChunks ⟨size, bs⟩) := by
  unfold LeavesTile
  rw [wantLeaves_eq]
  exact C15Post.leaves_tile size bs hs hbs

example : LeavesTile 5000 1 (Tree.postOrderChunks ⟨5000, 1⟩) :=
  clause_leaves 5000 1 (by decide) (by decide)

/-- clause 2 (from `C15Post.stack_discipline`): the hash stack ends at 1 and never underflows -/
theorem clause_stack (size bs : Nat) (hs : size ≤ 2 ^ 63) (hbs : bs ≤ 10) :
    StackOk (Tree.postOrderChunks ⟨size, bs⟩) :=
  (C15Post.stack_discipline size bs hs hbs).1

example : StackOk (Tree.postOrderChunks ⟨5000, 1⟩) := clause_stack 5000 1 (by decide) (by decide)

/-- clause 3 (from `C15Post.root_flag`): the root flag is set on exactly the last item -/
theorem clause_root (size bs : Nat) (hs : size ≤ 2 ^ 63) (hbs : bs ≤ 10) :
    RootLast (Tree.postOrderChunks ⟨size, bs⟩) := by
  obtain ⟨init, last, h, hl, hi⟩ := C15Post.root_flag size bs hs hbs
  exact rootLast_of_split h hl hi

example : RootLast (Tree.postOrderChunks ⟨5000, 1⟩) := clause_root 5000 1 (by decide) (by decide)

/-- clause 4 (from `C15Post.parent_after_subtree`): the parents are the persisted nodes in
post-order -/
theorem clause_parents (size bs : Nat) (hs : size ≤ 2 ^ 63) (hbs : bs ≤ 10) :
    ParentsPersisted size bs (Tree.postOrderChunks ⟨size, bs⟩) :=
  (C15Post.parent_after_subtree size bs hs hbs).2.1

example : ParentsPersisted 5000 1 (Tree.postOrderChunks ⟨5000, 1⟩) :=
  clause_parents 5000 1 (by decide) (by decide)

/-- clause 5 (from the recursion `plan = left ++ right ++ [parent]` of
`C15Post.parent_after_subtree`): every parent flags both children -/
theorem clause_both (size bs : Nat) (hs : size ≤ 2 ^ 63) (hbs : bs ≤ 10) :
    BothChildren (Tree.postOrderChunks ⟨size, bs⟩) := by
  unfold BothChildren
  rw [(C15Post.parent_after_subtree size bs hs hbs).1]
  exact both_planRec _ _ _ _ _ _

example : BothChildren (Tree.postOrderChunks ⟨5000, 1⟩) := clause_both 5000 1 (by decide) (by decide)

/-- … in constructor form: a parent item of the model plan has `left = right = true` -/
theorem clause_both_parent (size bs : Nat) (hs : size ≤ 2 ^ 63) (hbs : bs ≤ 10)
    {node : Nat} {r l rr : Bool} {rs : Ranges}
    (h : Chunk.parent node r l rr rs ∈ Tree.postOrderChunks ⟨size, bs⟩) : l = true ∧ rr = true := by
  have := clause_both size bs hs hbs _ h
  simpa [bothFlags] using this

example : (true = true ∧ true = true) :=
  clause_both_parent 2048 0 (by decide) (by decide)
    (node := 0) (r := true) (l := true) (rr := true) (rs := []) (by
      rw [show Tree.postOrderChunks ⟨2048, 0⟩
        = [.leaf 0 1024 false [], .leaf 1 1024 false [], .parent 0 true true true []] by
          decide +kernel]
      simp)

/-- clause 6 (from the recursion `plan = left ++ right ++ [parent]` of
`C15Post.parent_after_subtree`: the span walk over the plan of a subtree pushes exactly the chunk
span of that subtree, clipped to the blob, and `Node.mid` of the parent is where the two halves
meet): the span walk over the model plan runs through, and ends with the single span
`[0, nChunks size)` -/
theorem clause_spans (size bs : Nat) (hs : size ≤ 2 ^ 63) (hbs : bs ≤ 10) :
    SpansOk (Tree.postOrderChunks ⟨size, bs⟩) ∧
    spanRun [] (Tree.postOrderChunks ⟨size, bs⟩) = some [(0, Spec.nChunks size)] :=
  ⟨⟨_, span_plan size bs hs hbs⟩, span_plan size bs hs hbs⟩

example : spanRun [] (Tree.postOrderChunks ⟨5000, 1⟩) = some [(0, 5)] :=
  (clause_spans 5000 1 (by decide) (by decide)).2

/-! ## no false alarm -/

/-- the predicate never rejects the model plan -/
theorem planPostWF_model (size bs : Nat) (hs : size ≤ 2 ^ 63) (hbs : bs ≤ 10) :
    planPostWF size bs (Tree.postOrderChunks ⟨size, bs⟩) = none :=
  (planPostWF_none_iff size bs _).mpr
    ⟨clause_leaves size bs hs hbs, clause_stack size bs hs hbs, clause_root size bs hs hbs,
      clause_parents size bs hs hbs, clause_both size bs hs hbs, (clause_spans size bs hs hbs).1⟩

example : planPostWF 5000 0 (⟨5000, 0⟩ : Tree).postOrderChunks = none := by decide +kernel

example : planPostWF (2 ^ 63) 10 (⟨2 ^ 63, 10⟩ : Tree).postOrderChunks = none :=
  planPostWF_model _ _ (Nat.le_refl _) (Nat.le_refl _)

/-! ## what a passing plan guarantees -/

/-- the predicate is the conjunction of its six clauses (both directions; for every `size`, `bs`) -/
theorem planPostWF_none_iff' (size bs : Nat) (plan : List Chunk) :
    planPostWF size bs plan = none ↔
      LeavesTile size bs plan ∧ StackOk plan ∧ RootLast plan ∧ ParentsPersisted size bs plan ∧
      BothChildren plan ∧ SpansOk plan :=
  planPostWF_none_iff size bs plan

example : planPostWF 2048 0
    [.leaf 0 1024 false [], .leaf 1 1024 false [], .parent 0 true true true []] = none := by
  decide +kernel

/-- a plan the predicate accepts: its leaves tile `[0, size)` in group-sized pieces (leaf `i` starts
at chunk `i·2^bs` = byte `i·g`, `g = 2^bs·1024`, has at most `g` bytes, ends where leaf `i+1`
starts, the last leaf ends at `size`; there are `nBlocks` leaves); the hash stack never underflows
on a prefix and ends at height 1; the root flag is on exactly the last item; the parents are exactly
`Spec.persistedPost size bs`, in that order; every parent flags both children; the span walk runs
through (on every prefix), and every parent item finds, at its position, the spans of two subtrees
on top of the span stack — adjacent and meeting exactly at `Node.mid node`.
(`_partial`: this unfolds the predicate; that the plan IS the model plan up to the `ranges` fields
is not derived here — see the status block.) -/
theorem planPostWF_sound_partial (size bs : Nat) (plan : List Chunk)
    (h : planPostWF size bs plan = none) :
    ((leavesOf plan).length = Spec.nBlocks size bs ∧
      ∀ i, i < Spec.nBlocks size bs → ∃ z, (leavesOf plan)[i]? = some (i * 2 ^ bs, z) ∧
        z ≤ 2 ^ bs * 1024 ∧
        i * (2 ^ bs * 1024) + z
          = if i + 1 < Spec.nBlocks size bs then (i + 1) * (2 ^ bs * 1024) else size) ∧
    (stackRun 0 plan = some 1 ∧ ∀ a b, plan = a ++ b → ∃ s, stackRun 0 a = some s) ∧
    (∃ init last, plan = init ++ [last] ∧ rootFlag last = true ∧ ∀ c ∈ init, rootFlag c = false) ∧
    parentsOf plan = Spec.persistedPost size bs ∧
    (∀ node r l rr rs, Chunk.parent node r l rr rs ∈ plan → l = true ∧ rr = true) ∧
    ((∃ st, spanRun [] plan = some st) ∧ (∀ a b, plan = a ++ b → ∃ s, spanRun [] a = some s) ∧
      ∀ a node r l rr rs b, plan = a ++ Chunk.parent node r l rr rs :: b →
        ∃ ls re rest, spanRun [] a = some ((Node.mid node, re) :: (ls, Node.mid node) :: rest)) := by
  obtain ⟨h1, h2, h3, h4, h5, st, h6⟩ := (planPostWF_none_iff size bs plan).mp h
  refine ⟨⟨?_, ?_⟩, ⟨h2, fun _ _ hab => stack_prefix h2 hab⟩, split_of_rootLast h3, h4, ?_,
    ⟨st, h6⟩, fun _ _ hab => span_prefix h6 hab, fun _ _ _ _ _ _ _ hab => span_at_parent h6 hab⟩
  · rw [h1, wantLeaves_length]
  · intro i hi
    have hi' : i < (wantLeaves size bs).length := by rw [wantLeaves_length]; exact hi
    refine ⟨min (2 ^ bs * 1024) (size - i * (2 ^ bs * 1024)), ?_, wantLeaves_tile size bs i hi⟩
    rw [h1, List.getElem?_eq_getElem hi', wantLeaves_get]
  · intro node r l rr rs hm
    have := h5 _ hm
    simpa [bothFlags] using this

example : planPostWF 2048 0
    [.leaf 0 1024 false [], .leaf 1 1024 false [], .parent 0 true true true []] = none := by
  decide +kernel

/-- with the model theorems: a passing plan has the leaves and the parents of the model plan, each
in the model's order (`size ≤ 2^63`, `bs ≤ 10`) -/
theorem planPostWF_sound_views (size bs : Nat) (hs : size ≤ 2 ^ 63) (hbs : bs ≤ 10)
    (plan : List Chunk) (h : planPostWF size bs plan = none) :
    leavesOf plan = leavesOf (Tree.postOrderChunks ⟨size, bs⟩) ∧
    parentsOf plan = parentsOf (Tree.postOrderChunks ⟨size, bs⟩) ∧
    plan.length = (Tree.postOrderChunks ⟨size, bs⟩).length := by
  obtain ⟨h1, _, _, h4, _, _⟩ := (planPostWF_none_iff size bs plan).mp h
  have m1 := clause_leaves size bs hs hbs
  have m4 := clause_parents size bs hs hbs
  unfold LeavesTile at h1 m1
  unfold ParentsPersisted at h4 m4
  refine ⟨h1.trans m1.symm, h4.trans m4.symm, ?_⟩
  rw [length_views plan, length_views (Tree.postOrderChunks ⟨size, bs⟩), h1, m1, h4, m4]

example : planPostWF 5000 1 (Tree.postOrderChunks ⟨5000, 1⟩) = none := by decide +kernel

/-! ## plans the predicate rejects -/

example : planPostWF 2048 0
    [.leaf 0 1024 false [], .leaf 1 1024 false [], .parent 0 false true true []]
      = some "root flag" := by
  decide +kernel


/-- the model plan of `(2048, 0)` with the last two items swapped: hash stack underflow -/
example : planPostWF 2048 0
    [.leaf 0 1024 false [], .parent 0 true true true [], .leaf 1 1024 false []] ≠ none := by
  decide +kernel

/-- root flag missing -/
example : planPostWF 2048 0
    [.leaf 0 1024 false [], .leaf 1 1024 false [], .parent 0 false true true []] ≠ none := by
  decide +kernel

/-- a parent that flags only one child -/
example : planPostWF 2048 0
    [.leaf 0 1024 false [], .leaf 1 1024 false [], .parent 0 true true false []] ≠ none := by
  decide +kernel

/-- the empty plan -/
example : planPostWF 5000 0 [] ≠ none := by decide +kernel

/-- a leaf that is short -/
example : planPostWF 2048 0
    [.leaf 0 1024 false [], .leaf 1 1000 false [], .parent 0 true true true []] ≠ none := by
  decide +kernel

/-! ## the interleaving is checked (clause 6)

Clauses 1–5 look at the leaves, the parents, the stack height and the flags separately.  For
`(4096, 0)` the plan `L0 L1 L2 L3 P0 P2 P1` (model plan: `L0 L1 P0 L2 L3 P2 P1`) meets all of them;
it is rejected by the span walk: `P0` finds the spans of `L3` and `L2` on top, which meet at chunk
3, not at `Node.mid 0 = 1`. -/
example :
    planPostWF 4096 0 [.leaf 0 1024 false [], .leaf 1 1024 false [], .leaf 2 1024 false [],
      .leaf 3 1024 false [], .parent 0 false true true [], .parent 2 false true true [],
      .parent 1 true true true []] = some "a parent does not come right after its two subtrees" := by
  decide +kernel

/-- … and it is clause 6 alone that rejects it -/
example :
    let plan : List Chunk := [.leaf 0 1024 false [], .leaf 1 1024 false [], .leaf 2 1024 false [],
      .leaf 3 1024 false [], .parent 0 false true true [], .parent 2 false true true [],
      .parent 1 true true true []]
    LeavesTile 4096 0 plan ∧ StackOk plan ∧ RootLast plan ∧ ParentsPersisted 4096 0 plan ∧
      spanRun [] plan = none := by
  intro plan
  unfold LeavesTile StackOk RootLast ParentsPersisted
  refine ⟨?_, ?_, ?_, ?_, ?_⟩ <;> decide +kernel

/-- the model plan of the same blob passes -/
example : planPostWF 4096 0 (⟨4096, 0⟩ : Tree).postOrderChunks = none := by decide +kernel

end Bao.SpecPost

/-
Status.
PROVED (no sorry; axioms: propext, Classical.choice, Quot.sound at most):
  * `planPostWF_model`        — for `size ≤ 2^63`, `bs ≤ 10`:
                                `planPostWF size bs (⟨size, bs⟩ : Tree).postOrderChunks = none`.
  * `clause_leaves`           — clause 1 (`LeavesTile`), from `C15Post.leaves_tile` + `C12.blocks_spec`.
  * `clause_stack`            — clause 2 (`StackOk`), from `C15Post.stack_discipline`.
  * `clause_root`             — clause 3 (`RootLast`), from `C15Post.root_flag`.
  * `clause_parents`          — clause 4 (`ParentsPersisted`), from `C15Post.parent_after_subtree`.
  * `clause_both`, `clause_both_parent`
                              — clause 5 (`BothChildren`), from the `planRec` recursion of
                                `C15Post.parent_after_subtree`.
  * `clause_spans`            — clause 6 (`SpansOk`), from the same recursion: the span walk over the
                                plan of a subtree pushes exactly its chunk span clipped to the blob
                                (`span_planD`); the walk over the whole plan ends with
                                `[(0, nChunks size)]`.
  * `planPostWF_none_iff'`    — predicate = conjunction of the six clauses (iff, all `size`, `bs`).
  * `planPostWF_sound_views`  — a passing plan has the model's leaves, parents and length.
  (lemmas in `SpecPostL.lean`: `planPostWF_none_iff`, `rootLast_of_split`, `split_of_rootLast`,
   `both_planRec`, `length_views`, `wantLeaves_eq/_length/_get/_tile`, `spanRun_*`, `span_prefix`,
   `span_at_parent`, `block_start_lt`, `nChunks_le_of_blocks_le`, `leaf_span`, `midOf_shift`,
   `span_planD`, `span_plan`.)
PARTIAL:
  * `planPostWF_sound_partial` — what a passing plan guarantees (leaves tile `[0, size)` in group-sized
    pieces, stack discipline incl. every prefix, root flag on the last item only, parents =
    `Spec.persistedPost size bs`, both-children flags, span walk incl. every prefix and the two
    adjacent spans meeting at `Node.mid node` below every parent item).
OPEN:
  -- OPEN: theorem planPostWF_unique (hs : size ≤ 2^63) (hbs : bs ≤ 10)
  --   (h : planPostWF size bs plan = none) :
  --   plan.map Chunk.withoutRanges = (Tree.postOrderChunks ⟨size, bs⟩)
  -- (with clause 6 the interleaving of leaves and parents should be determined: the former
  -- counterexample `(4096, 0)`, `L0 L1 L2 L3 P0 P2 P1`, is now rejected.  Missing: an invariant of
  -- the span stack — starts strictly increasing, every span ends where the next one starts, the
  -- next leaf starts where the top span ends — from which "the first item where two passing plans
  -- differ" is contradictory.  The `ranges` fields are ignored by every clause, hence
  -- `withoutRanges`.)
-/
