import BaoProofs.Lemmas.EncodeSpec

/-!
# C04 — the wire format is bao's, minus hash pairs inside fully sent chunk groups
# (and C14, second half: queries that select the same chunks produce identical encodings)

"… For larger block sizes the encoding is the block-size-0 encoding of the same selection with
exactly those hash pairs removed that belong to subtrees of at most one chunk group lying
completely inside the selection.  The encoding is a function of data, block size and selected
chunks only."

The wire format is specified by `Spec.itemsI` / `Spec.items` / `Spec.encode` (`BaoModel/Spec.lean`):
a recursion over chunk intervals that mentions only the blob, the block size and the set of
selected chunks `Spec.selected size q`.  This file proves, for every `hf : HashFns H` whose hashes
are 32 bytes (`hlen`) and survive the byte round trip (`hrt`), `[BEq H] [LawfulBEq H]`, every blob
`d` with `d.length ≤ 2^63`, every `bs ≤ 10`, every well-formed query `q`:

1. `encodeSelectedRec_spec`, `encodeSelectedRec_on_plan`: `encode_selected_rec` on the bytes of a chunk
   group returns `Spec.cv` of the group and the bytes of `Spec.itemsI` of the group, for the range
   sets the traversal plan attaches to its leaves (`leaf_ranges_repr`).
2. `encode_is_spec`: on the intact store (the outboard of `d`, root `Spec.root hf d`), the
   validating encoders (sync and fsm) emit exactly `Spec.encode hf d bs q` and end with `Ok`:
   every hash comparison succeeds.  `encode_plain_is_spec`: so do the non-validating encoders;
   `mixed_is_spec`: and the flattened item stream of `traverse_ranges_validated`.
3. `function_of_selection`, `interchangeable_encode`: queries selecting the same chunks have the same
   `Spec.encode`, hence all encoders emit identical bytes for them.
4. `prune`: `Spec.encode hf d bs q` is the concatenation of those items of the block-size-0 stream
   `Spec.items hf d 0 q` that `keep bs sel n` keeps: all leaves, and every parent except those of a
   node of level `< bs` all of whose chunks (inside the blob) are selected.

Method: `Lemmas/EncodeSpec.lean`.  The invariant `EncodeSpec.Repr size sel rs a b` says that the
range set `rs` is what `split_inner` hands down to the node with chunk interval `[a, b)` for the
selection `sel` (well-formed, minimal boundaries, truncated, same selected chunks); it gives
`rs.is_empty() ↔` nothing selected and `rs.is_all() ↔` everything selected.  `loop_sub` runs
`encodeValidatedLoop` over the recursive plan of `C15` with `Spec.cv` of the pending interval on
the expected-hash stack.
-/

namespace Bao.C04
open Bao Bao.Spec Bao.EncodeSpec

variable {H : Type}

/-- a blob, a store holding its outboard at block size 1, for the non-vacuity examples -/
def toyStore : Store UInt8 :=
  ⟨.preIo, Spec.root C03.toyHash C03.toyBlob, ⟨3000, 1⟩, Spec.preOutboard C03.toyHash C03.toyBlob 1⟩

theorem toyStore_tree : toyStore.tree = ⟨C03.toyBlob.length, 1⟩ := C03.toy_tree
theorem toyStore_root : toyStore.root = Spec.root C03.toyHash C03.toyBlob := by simp only [toyStore]
theorem toyStore_data :
    ((toyStore.kind = .preIo ∨ toyStore.kind = .preMem) ∧
        toyStore.data = Spec.preOutboard C03.toyHash C03.toyBlob 1) ∨
    ((toyStore.kind = .postIo ∨ toyStore.kind = .postMem) ∧
        toyStore.data = Spec.postOutboard C03.toyHash C03.toyBlob 1) :=
  .inl ⟨.inl (by simp only [toyStore]), by simp only [toyStore]⟩

/-! ## 3. the encoding is a function of the selection -/

/-- the honest item stream and encoding depend on the query only through the selected chunks -/
theorem function_of_selection (hf : HashFns H) (d : List UInt8) (bs : Nat) {q₁ q₂ : Ranges}
    (h : ∀ c, Spec.selected d.length q₁ c = Spec.selected d.length q₂ c) :
    Spec.items hf d bs q₁ = Spec.items hf d bs q₂ ∧ Spec.encode hf d bs q₁ = Spec.encode hf d bs q₂ := by
  have e : Spec.selected d.length q₁ = Spec.selected d.length q₂ := funext h
  simp only [Spec.encode, Spec.items, e, and_self]

/-- two different queries on a 3-chunk blob that select the same chunk (the last one) -/
theorem toy_same_selection : ∀ c, Spec.selected C03.toyBlob.length [2] c =
    Spec.selected C03.toyBlob.length [5, 7] c := by
  intro c
  rw [C03.toy_length]
  match c with
  | 0 => decide
  | 1 => decide
  | 2 => decide
  | c + 3 =>
    have hn : Spec.nChunks 3000 = 3 := by decide
    have : decide (c + 3 < Spec.nChunks 3000) = false := by rw [hn]; simp
    simp only [Spec.selected, this, Bool.false_and]

example : Spec.encode C03.toyHash C03.toyBlob 1 [2] = Spec.encode C03.toyHash C03.toyBlob 1 [5, 7] :=
  (function_of_selection C03.toyHash C03.toyBlob 1 toy_same_selection).2

/-! ## 4. larger block sizes prune the block-size-0 stream -/

/-- which items of the block-size-0 stream survive at block size `bs` (for the selection `sel` of
a blob of `n` chunks): all leaves, and the parents except those whose node has level `< bs` and
whose whole chunk interval (clipped to the blob) is selected -/
abbrev keep := @EncodeSpec.keep

theorem keep_leaf (bs : Nat) (sel : Nat → Bool) (n s : Nat) (b : List UInt8) :
    keep bs sel n (.leaf s b) = true := rfl

theorem keep_parent (bs : Nat) (sel : Nat → Bool) (n node : Nat) (b : List UInt8) :
    keep bs sel n (.parent node b) =
      !(decide (levelOf node < bs) &&
        allSel sel (startOf (indexOf node) (levelOf node))
          (min (endOf (indexOf node) (levelOf node)) n)) := rfl

/-- the encoding at block size `bs` is the block-size-0 stream of the same selection with exactly
the hash pairs of fully selected sub-group nodes removed (leaf bytes are unchanged by merging the
leaves of such a node into one leaf) -/
theorem prune (hf : HashFns H) (d : List UInt8) (bs : Nat) (q : Ranges) :
    Spec.encode hf d bs q =
      ((Spec.items hf d 0 q).filter
        (keep bs (Spec.selected d.length q) (nChunks d.length))).flatMap SItem.bytes :=
  prune_aux hf d (nChunks d.length) bs (Spec.selected d.length q) (log2ceil 64 (nChunks d.length)) 0
    0 (by simp) (log2ceil_le _ _) (Ranges.nChunks_pos _)

/-- at block size 0 nothing is pruned -/
theorem keep_zero (sel : Nat → Bool) (n : Nat) (i : SItem) : keep 0 sel n i = true := by
  cases i with
  | leaf s b => rfl
  | parent node b => simp [keep, EncodeSpec.keep]

/-- the running example: 3000 bytes (3 chunks), everything selected, block size 1: the pair of
node 0 (chunks 0 and 1, one chunk group) is removed, the root pair (node 1) stays; with only
chunk 1 selected the pair of node 0 stays as well -/
example : keep 1 (Spec.selected 3000 [0]) 3 (.parent 0 []) = false ∧
    keep 1 (Spec.selected 3000 [0]) 3 (.parent 1 []) = true ∧
    keep 1 (Spec.selected 3000 [1, 2]) 3 (.parent 0 []) = true := by decide

/-! ## 1. `encode_selected_rec` inside a chunk group -/

/-- `encode_selected_rec` on the bytes of the interval of height `h ≤ bs` and index `j` (first chunk
`a = j·2^h` inside the blob), with a range set `rs` that represents the selection `sel` on that
interval (`Repr`), and any level bound `fuel` covering the interval: the hash is `Spec.cv` of the
interval and the bytes are those of `Spec.itemsI` of the interval -/
theorem encodeSelectedRec_spec (hf : HashFns H) (d : List UInt8) (bs : Nat) (hbs : bs ≤ 10)
    (sel : Nat → Bool) {h j a : Nat} {rs : Ranges} (isRoot : Bool) (fuel : Nat) (hfuel : h ≤ fuel)
    (hf64 : fuel ≤ 64) (ha : a = j * 2 ^ h) (hh : h ≤ bs) (han : a < nChunks d.length)
    (hr : Repr d.length sel rs a (a + 2 ^ h)) :
    encodeSelectedRec hf fuel a (slice d a (a + 2 ^ h)) isRoot rs bs true =
      (cv hf d a (min (a + 2 ^ h) (nChunks d.length)) isRoot,
        (itemsI hf d (nChunks d.length) bs sel h j).flatMap SItem.bytes) :=
  rec_spec hf d bs sel (by omega) isRoot fuel hfuel hf64 ha hh han hr

/-- non-vacuity: the whole 3-chunk blob as one group of height 2, range set of the query `[1, 2]` -/
example : (2 : Nat) ≤ 64 ∧ (0 : Nat) = 0 * 2 ^ 2 ∧ 0 < nChunks C03.toyBlob.length ∧
    Repr C03.toyBlob.length (Spec.selected C03.toyBlob.length [1, 2])
      (Ranges.truncate [1, 2] C03.toyBlob.length) 0 (0 + 2 ^ 2) :=
  ⟨by decide, by decide, Ranges.nChunks_pos _,
    repr_root (by decide) (by rw [C03.toy_length]; decide)⟩

/-- the range sets the plan delivers: every leaf of the encoder's plan for the truncated query is
one chunk group starting inside the blob, its size field is the group's byte count, and its range
set represents the selection on the group -/
theorem leaf_ranges_repr {size bs : Nat} (hs : size ≤ 2 ^ 63) (hbs : bs ≤ 10) {q : Ranges}
    (hwf : Ranges.WF q = true) {p : List Chunk}
    (hp : Tree.prePartialChunks ⟨size, bs⟩ (Ranges.truncate q size) 0 = some p)
    {s z : Nat} {r : Bool} {x : Ranges} (hm : Chunk.leaf s z r x ∈ p) :
    ∃ j, s = j * 2 ^ bs ∧ s < nChunks size ∧
      z = min ((s + 2 ^ bs) * 1024) size - s * 1024 ∧
      Repr size (Spec.selected size q) x s (s + 2 ^ bs) := by
  rw [C15.eq_plan hs hbs hp] at hm
  exact plan_leaf_repr_top hs hbs hwf hm

/-- … hence at every leaf of the plan the call the encoders make returns the group's `Spec.cv` and
the bytes of the group's items -/
theorem encodeSelectedRec_on_plan (hf : HashFns H) (d : List UInt8) (bs : Nat)
    (hs : d.length ≤ 2 ^ 63) (hbs : bs ≤ 10) {q : Ranges} (hwf : Ranges.WF q = true)
    {p : List Chunk}
    (hp : Tree.prePartialChunks ⟨d.length, bs⟩ (Ranges.truncate q d.length) 0 = some p)
    {s z : Nat} {r : Bool} {x : Ranges} (hm : Chunk.leaf s z r x ∈ p) :
    ∃ j, s = j * 2 ^ bs ∧
      readExactAt d (toBytes s) z = .ok (slice d s (s + 2 ^ bs)) ∧
      encodeSelectedRec hf recFuel s (slice d s (s + 2 ^ bs)) r x bs true =
        (cv hf d s (min (s + 2 ^ bs) (nChunks d.length)) r,
          (itemsI hf d (nChunks d.length) bs (Spec.selected d.length q) bs j).flatMap SItem.bytes) := by
  obtain ⟨j, hj, hsn, hz, hr⟩ := leaf_ranges_repr hs hbs hwf hp hm
  exact ⟨j, hj, readExactAt_slice hsn (Bits.two_pow_pos' bs) hz,
    rec_spec hf d bs _ (by omega) r recFuel (by unfold recFuel; omega) (by unfold recFuel; omega)
      hj (Nat.le_refl _) hsn hr⟩

example : C03.toyBlob.length ≤ 2 ^ 63 ∧ (1 : Nat) ≤ 10 ∧ Ranges.WF [1, 2] = true ∧
    Tree.prePartialChunks ⟨3000, 1⟩ (Ranges.truncate [1, 2] 3000) 0 =
      some [.parent 1 true true false [1, 2], .leaf 0 2048 false [1]] ∧
    Chunk.leaf 0 2048 false [1] ∈
      [Chunk.parent 1 true true false [1, 2], Chunk.leaf 0 2048 false [1]] :=
  ⟨C03.toy_size, by decide, by decide, by decide, by simp⟩

/-! ## 2. the encoders emit the honest encoding -/

section intact
variable {hf : HashFns H} [BEq H] [LawfulBEq H] {d : List UInt8} {bs : Nat} {st : Store H}

/-- **the validating encoders emit `Spec.encode`.**  On the intact store — tree `⟨d.length, bs⟩`,
root `Spec.root hf d`, backing = the pre-order (post-order) outboard of `d` for the pre-order
(post-order) kinds — `encode_ranges_validated` (sync and fsm) over the data `d` writes exactly the
honest encoding and returns `Ok`: the expected-hash stack holds `Spec.cv` of the pending intervals
and every comparison succeeds. -/
theorem encode_is_spec (hlen : ∀ h, (hf.toBytes h).length = 32)
    (hrt : ∀ h, hf.ofBytes (hf.toBytes h) = h) (hs : d.length ≤ 2 ^ 63) (hbs : bs ≤ 10)
    (htree : st.tree = ⟨d.length, bs⟩) (hroot : st.root = Spec.root hf d)
    (hdata : ((st.kind = .preIo ∨ st.kind = .preMem) ∧ st.data = Spec.preOutboard hf d bs) ∨
             ((st.kind = .postIo ∨ st.kind = .postMem) ∧ st.data = Spec.postOutboard hf d bs))
    (fl : Flavour) {q : Ranges} (hwf : Ranges.WF q = true) :
    encodeRangesValidated hf fl d st q = ⟨Spec.encode hf d bs q, .ok⟩ :=
  validated_spec ⟨hlen, hrt, hs, hbs, htree, hdata⟩ hroot fl hwf

example : encodeRangesValidated C03.toyHash .fsm C03.toyBlob toyStore [1, 2]
    = ⟨Spec.encode C03.toyHash C03.toyBlob 1 [1, 2], .ok⟩ :=
  encode_is_spec C03.toy_len C03.toy_rt C03.toy_size (by decide) toyStore_tree toyStore_root
    toyStore_data .fsm (by decide)

/-- the non-validating encoders (`encode_ranges`, sync and fsm) emit the same bytes -/
theorem encode_plain_is_spec (hlen : ∀ h, (hf.toBytes h).length = 32)
    (hrt : ∀ h, hf.ofBytes (hf.toBytes h) = h) (hs : d.length ≤ 2 ^ 63) (hbs : bs ≤ 10)
    (htree : st.tree = ⟨d.length, bs⟩) (hroot : st.root = Spec.root hf d)
    (hdata : ((st.kind = .preIo ∨ st.kind = .preMem) ∧ st.data = Spec.preOutboard hf d bs) ∨
             ((st.kind = .postIo ∨ st.kind = .postMem) ∧ st.data = Spec.postOutboard hf d bs))
    (fl : Flavour) {q : Ranges} (hwf : Ranges.WF q = true) :
    encodeRanges hf fl d st q = ⟨Spec.encode hf d bs q, .ok⟩ := by
  have h := encode_is_spec hlen hrt hs hbs htree hroot hdata fl hwf
  rw [C08.plain_eq_validated_of_ok hf fl d st q (by rw [h]), h]

example : encodeRanges C03.toyHash .sync C03.toyBlob toyStore [1, 2]
    = ⟨Spec.encode C03.toyHash C03.toyBlob 1 [1, 2], .ok⟩ :=
  encode_plain_is_spec C03.toy_len C03.toy_rt C03.toy_size (by decide) toyStore_tree toyStore_root
    toyStore_data .sync (by decide)

/-- the item stream of `traverse_ranges_validated` (`mixed.rs`) ends with `Done` and flattens to
the honest encoding -/
theorem mixed_is_spec (hlen : ∀ h, (hf.toBytes h).length = 32)
    (hrt : ∀ h, hf.ofBytes (hf.toBytes h) = h) (hs : d.length ≤ 2 ^ 63) (hbs : bs ≤ 10)
    (htree : st.tree = ⟨d.length, bs⟩) (hroot : st.root = Spec.root hf d)
    (hdata : ((st.kind = .preIo ∨ st.kind = .preMem) ∧ st.data = Spec.preOutboard hf d bs) ∨
             ((st.kind = .postIo ∨ st.kind = .postMem) ∧ st.data = Spec.postOutboard hf d bs))
    {q : Ranges} (hwf : Ranges.WF q = true) :
    ∃ items, traverseRangesValidated hf d st q = some items ∧
      items.flatMap (EncodedItem.flatten hf) = Spec.encode hf d bs q ∧
      items.getLast? = some .done := by
  have hv := encode_is_spec hlen hrt hs hbs htree hroot hdata .sync hwf
  cases h : traverseRangesValidated hf d st q with
  | none =>
    have := (C08.mixed_panic hf d st q).1 h
    rw [hv] at this
    cases this
  | some items =>
    obtain ⟨mid, last, -, -, hlast, hterm, hflat⟩ := C08.mixed_flatten hf d st q items h
    rw [hv] at hterm hflat
    refine ⟨items, rfl, hflat, ?_⟩
    rcases hterm with ⟨rfl, -⟩ | ⟨e, -, he⟩
    · exact hlast
    · cases he

example : ∃ items, traverseRangesValidated C03.toyHash C03.toyBlob toyStore [1, 2] = some items ∧
    items.flatMap (EncodedItem.flatten C03.toyHash) = Spec.encode C03.toyHash C03.toyBlob 1 [1, 2] ∧
    items.getLast? = some .done :=
  mixed_is_spec C03.toy_len C03.toy_rt C03.toy_size (by decide) toyStore_tree toyStore_root
    toyStore_data (by decide)

/-! ## 3'. (C14, second half) queries with the same selection are interchangeable -/

/-- if two well-formed queries select the same chunks of the blob, every encoder (validating or
not, sync or fsm) emits the same bytes for both, namely `Spec.encode` of either -/
theorem interchangeable_encode (hlen : ∀ h, (hf.toBytes h).length = 32)
    (hrt : ∀ h, hf.ofBytes (hf.toBytes h) = h) (hs : d.length ≤ 2 ^ 63) (hbs : bs ≤ 10)
    (htree : st.tree = ⟨d.length, bs⟩) (hroot : st.root = Spec.root hf d)
    (hdata : ((st.kind = .preIo ∨ st.kind = .preMem) ∧ st.data = Spec.preOutboard hf d bs) ∨
             ((st.kind = .postIo ∨ st.kind = .postMem) ∧ st.data = Spec.postOutboard hf d bs))
    {q₁ q₂ : Ranges} (hwf₁ : Ranges.WF q₁ = true) (hwf₂ : Ranges.WF q₂ = true)
    (hsel : ∀ c, Spec.selected d.length q₁ c = Spec.selected d.length q₂ c)
    (fl₁ fl₂ : Flavour) :
    encodeRangesValidated hf fl₁ d st q₁ = encodeRangesValidated hf fl₂ d st q₂ ∧
    encodeRanges hf fl₁ d st q₁ = encodeRanges hf fl₂ d st q₂ ∧
    encodeRanges hf fl₁ d st q₁ = encodeRangesValidated hf fl₂ d st q₂ ∧
    (encodeRanges hf fl₁ d st q₁).out = Spec.encode hf d bs q₂ := by
  have e := (function_of_selection hf d bs hsel).2
  rw [encode_is_spec hlen hrt hs hbs htree hroot hdata fl₁ hwf₁,
    encode_is_spec hlen hrt hs hbs htree hroot hdata fl₂ hwf₂,
    encode_plain_is_spec hlen hrt hs hbs htree hroot hdata fl₁ hwf₁,
    encode_plain_is_spec hlen hrt hs hbs htree hroot hdata fl₂ hwf₂, e]
  exact ⟨rfl, rfl, rfl, rfl⟩

example : encodeRangesValidated C03.toyHash .sync C03.toyBlob toyStore [2]
    = encodeRangesValidated C03.toyHash .fsm C03.toyBlob toyStore [5, 7] :=
  (interchangeable_encode C03.toy_len C03.toy_rt C03.toy_size (by decide) toyStore_tree toyStore_root
    toyStore_data (by decide) (by decide) toy_same_selection .sync .fsm).1

end intact

/-
## Status (C04; C14 second half)

All theorems depend on the axioms `propext`, `Classical.choice`, `Quot.sound` only.

Proved (full strength: every `hf` with `hlen`, `hrt`, `[BEq H] [LawfulBEq H]`; `d.length ≤ 2^63`;
`bs ≤ 10`; well-formed `q`; NO collision-freedom assumption):
  function_of_selection    `Spec.items` / `Spec.encode` depend on `q` only through `Spec.selected`
                           (no hypotheses at all on `hf`, `d`, `bs`).
  prune, keep_leaf, keep_parent, keep_zero
                           `Spec.encode hf d bs q` = bytes of the block-size-0 items kept by `keep`
                           (no hypotheses at all); `keep` drops exactly the parents of nodes of
                           level `< bs` whose clipped chunk interval is completely selected.
  encodeSelectedRec_spec   hash = `Spec.cv`, bytes = bytes of `Spec.itemsI`, for every interval of
                           height `h ≤ bs` starting inside the blob and every range set satisfying
                           `EncodeSpec.Repr`; any level bound `h ≤ fuel ≤ 64`.
  leaf_ranges_repr, encodeSelectedRec_on_plan
                           the range sets attached to the leaves of the encoder's plan satisfy
                           `Repr`; the leaf size is the group's byte count; the call made by the
                           encoders at a leaf returns (`Spec.cv`, bytes of the group's items).
  encode_is_spec           `encodeRangesValidated hf fl d st q = ⟨Spec.encode hf d bs q, .ok⟩`, both
                           flavours, kinds preIo / preMem / postIo / postMem on the intact store.
  encode_plain_is_spec     the same for `encodeRanges`.
  mixed_is_spec            `traverseRangesValidated` does not panic, ends with `Done`, and flattens
                           to `Spec.encode`.
  interchangeable_encode   same selection ⇒ identical output of all four encoders (C14, 2nd half).
Partial: none.
OPEN:
  -- OPEN: item-level form of `prune` (b): "`Spec.items hf d bs q` is `Spec.items hf d 0 q` with the
  --   dropped parents deleted and the leaves below each dropped maximal node merged into one
  --   `SItem.leaf`".  Only the byte-level statement `prune` is proved (leaf bytes are unchanged by
  --   merging); an item-level statement needs a `mergeLeaves` function on `List SItem`, which the
  --   spec layer does not define (the doc comment of `Spec.itemsI` mentions one).
  -- OPEN: "for block size 0 the encoding is bao's" is a statement about the external `bao` crate;
  --   it is checked by the differential harness (`baocmp`), not provable in the model.
  -- Not covered: the `EmptyOutboard` kind (its `load` returns zero pairs, so validated encoding
  --   fails with a hash mismatch unless the tree has a single chunk group; `encode_is_spec` has no
  --   analogue there by design).
Remarks on the model (nothing looked wrong):
  * `encodeSelectedRec` tests `level ≥ minLevel` with `level` = level of the node being split; the
    encoders call it only on chunk groups (`height ≤ bs`), where that test is always false, so a
    parent is emitted iff the range set is neither empty nor "all" — which is what `Spec.itemsI`
    says.  `Ranges.isAll rs` (`rs == [0]`) coincides with "every chunk of the node selected" only
    for nodes with at least two chunks inside the blob (`EncodeSpec.repr_all_iff`); for a single
    (last) chunk the plan can carry e.g. `[20]` on a 13-chunk blob — harmless, because a single
    chunk is emitted whenever the range set is non-empty.
  * The equivalence `isAll ↔ all selected` genuinely needs `truncate_ranges`: without truncation a
    query `[1, 20]` on a 16-chunk blob would reach the node `[8, 16)` as `[1, 20]` (not "all")
    although all its chunks are selected, and hash pairs inside fully selected groups would be
    emitted.  Both `encodeRangesValidated` and (after defect D6) `encodeRanges` truncate first.
-/

end Bao.C04
