import BaoProofs.Lemmas.StoreAlgL

/-!
# Store algebra — "idempotent positional writes of pairs", "node → offset maps shared by every writer"

The four persisting outboard kinds (`PreOrderOutboard`, `PostOrderOutboard` over an io backing,
`PreOrderMemOutboard`, `PostOrderMemOutboard`) are arrays of 64-byte records indexed by the C12
bijection `persisted node ↦ position in the traversal`; `save` overwrites one record, `load` reads
one record.  For every hash instance whose hashes are 32 bytes (`hlen`) and survive the byte round
trip (`hrt`), every flavour, every store whose backing has exactly the outboard size, every tree of
size `≤ 2^63` and block size `≤ 10`:

1. `save_load_same`      – what was saved is loaded; kind, tree, root and length are kept;
2. `save_load_other`     – every other persisted node is untouched (in fact every node with another
                           slot: `save_load_other_slot`);
3. `save_bytes`          – the backing changes exactly in `[64 i, 64 i + 64)`, `i` = the index of the
                           node in `Spec.persistedPre` / `Spec.persistedPost`;
4. `save_idempotent`, `save_commute`;
5. `save_not_persisted`, `load_not_persisted`, `slot_none_iff`;
6. `empty_store`;
7. `no_panic`.

`persisted s` is `Spec.persistedPre` for the pre-order kinds, `Spec.persistedPost` for the
post-order kinds (`persisted_pre`, `persisted_post` in `StoreAlgL`); `InTree t x` says that `x` is a
node of the tree: below the block level, or visited by the model of `BaoTree::pre_order_nodes_iter`.
-/

set_option maxRecDepth 8192

namespace Bao.C12Store
open Bao Bao.Spec Bao.Offsets Bao.NodeIterL Bao.WriteAtL Bao.OutboardL

variable {H : Type}

/-! ## non-vacuity data: a toy hash and small concrete stores -/

/-- a toy hash with a 32-byte representation and the byte round trip -/
def toyHash : HashFns UInt8 where
  chunkCv := fun c b r => b.foldl (· + ·) (UInt8.ofNat c + if r then 1 else 0)
  parentCv := fun l r f => l + 2 * r + if f then 1 else 0
  ofBytes := fun b => b.headD 0
  toBytes := fun h => List.replicate 32 h

theorem toy_len : ∀ h, (toyHash.toBytes h).length = 32 := fun _ => List.length_replicate ..
theorem toy_rt : ∀ h, toyHash.ofBytes (toyHash.toBytes h) = h := fun _ => rfl

/-- 5000 bytes, block size 0: 5 chunks, persisted nodes `[3, 1, 0, 2]` (pre-order) /
`[0, 2, 1, 3]` (post-order), half leaf `4`; 256 bytes of outboard -/
def toyStore (kind : StoreKind) : Store UInt8 := ⟨kind, 0, ⟨5000, 0⟩, List.replicate 256 9⟩

theorem toy_dl (kind : StoreKind) :
    (toyStore kind).data.length = (toyStore kind).tree.outboardSize := by
  cases kind <;> decide

theorem toy_size (kind : StoreKind) : (toyStore kind).tree.size ≤ 2 ^ 63 := by
  cases kind <;> decide
theorem toy_bs (kind : StoreKind) : (toyStore kind).tree.bs ≤ 10 := by
  cases kind <;> decide

theorem toy_pre : persisted (toyStore .preMem) = [3, 1, 0, 2] := by decide
theorem toy_post : persisted (toyStore .postIo) = [0, 2, 1, 3] := by decide

/-! ## 1. what was saved is loaded -/

/-- a node with slot `k` inside the outboard (`k < blocks - 1`): `save` succeeds, the saved pair is
loaded back, and kind, tree, root and the length of the backing are kept -/
theorem save_load_same (hf : HashFns H) (hlen : ∀ h, (hf.toBytes h).length = 32)
    (hrt : ∀ h, hf.ofBytes (hf.toBytes h) = h) (fl : Flavour) (s : Store H)
    (hk : s.kind ≠ .empty) (hdl : s.data.length = s.tree.outboardSize) (n k : Nat) (p : H × H)
    (hsl : s.slot n = some k) (hkb : k < s.tree.blocks - 1) :
    ∃ s', s.save hf n p = .ok s' ∧ s'.load hf fl n = .ok (some p) ∧ s'.kind = s.kind ∧
      s'.tree = s.tree ∧ s'.root = s.root ∧ s'.data.length = s.data.length := by
  have hsz : s.tree.outboardSize = (s.tree.blocks - 1) * 64 := rfl
  have hin : k * 64 + 64 ≤ s.data.length := by omega
  have hb := pair_bytes_length hf hlen p
  refine ⟨_, save_some hf hk hsl hin p, ?_, rfl, rfl, rfl, ?_⟩
  · have hin' : k * 64 + 64 ≤ (writeAt s.data (k * 64) (hf.toBytes p.1 ++ hf.toBytes p.2)).length := by
      rw [length_writeAt, hb]; omega
    rw [load_some hf fl
        (s := { s with data := writeAt s.data (k * 64) (hf.toBytes p.1 ++ hf.toBytes p.2) })
        hk hsl hin', blockAt_writeAt_self _ _ _ hb,
      parsePair_bytes hf hlen hrt]
  · simp only [length_writeAt, hb]; omega

example : ∃ s', (toyStore .preMem).save toyHash 1 (5, 6) = .ok s' ∧
    s'.load toyHash .sync 1 = .ok (some (5, 6)) ∧ s'.kind = .preMem ∧
    s'.tree = ⟨5000, 0⟩ ∧ s'.root = 0 ∧ s'.data.length = 256 :=
  save_load_same toyHash toy_len toy_rt .sync (toyStore .preMem) (by decide) (toy_dl _) 1 1 (5, 6)
    (by decide) (by decide)

/-- the same for a node of the persisted list of the store's order (C12 gives slot and bound) -/
theorem save_load_same_mem (hf : HashFns H) (hlen : ∀ h, (hf.toBytes h).length = 32)
    (hrt : ∀ h, hf.ofBytes (hf.toBytes h) = h) (fl : Flavour) (s : Store H)
    (hdl : s.data.length = s.tree.outboardSize) (hs : s.tree.size ≤ 2 ^ 63) (hbs : s.tree.bs ≤ 10)
    (n : Nat) (p : H × H) (hn : n ∈ persisted s) :
    ∃ s', s.save hf n p = .ok s' ∧ s'.load hf fl n = .ok (some p) ∧ s'.kind = s.kind ∧
      s'.tree = s.tree ∧ s'.root = s.root ∧ s'.data.length = s.data.length := by
  obtain ⟨i, hi, -, hsl, hib⟩ := slot_of_mem s hs hbs hn
  have hk : s.kind ≠ .empty := by
    intro h; rw [persisted_empty h] at hn; cases hn
  exact save_load_same hf hlen hrt fl s hk hdl n i p hsl hib

example : ∃ s', (toyStore .postIo).save toyHash 3 (5, 6) = .ok s' ∧
    s'.load toyHash .fsm 3 = .ok (some (5, 6)) ∧ s'.kind = .postIo ∧
    s'.tree = ⟨5000, 0⟩ ∧ s'.root = 0 ∧ s'.data.length = 256 :=
  save_load_same_mem toyHash toy_len toy_rt .fsm (toyStore .postIo) (toy_dl _) (toy_size _)
    (toy_bs _) 3 (5, 6) (by rw [toy_post]; decide)

/-- the io kinds need no hypothesis on the backing: a short backing is zero-extended by the write
(`WriteAt for Vec<u8>`), any node with a slot (even an id outside the tree) can be saved and is
loaded back; the backing grows to `max length (64 k + 64)` -/
theorem save_load_same_io (hf : HashFns H) (hlen : ∀ h, (hf.toBytes h).length = 32)
    (hrt : ∀ h, hf.ofBytes (hf.toBytes h) = h) (fl : Flavour) (s : Store H)
    (hk : s.kind = .preIo ∨ s.kind = .postIo) (n k : Nat) (p : H × H) (hsl : s.slot n = some k) :
    ∃ s', s.save hf n p = .ok s' ∧ s'.load hf fl n = .ok (some p) ∧ s'.kind = s.kind ∧
      s'.tree = s.tree ∧ s'.root = s.root ∧
      s'.data.length = max s.data.length (k * 64 + 64) := by
  have hb := pair_bytes_length hf hlen p
  have hne : s.kind ≠ .empty := by rcases hk with h | h <;> simp [h]
  refine ⟨_, save_io hf hk hsl p, ?_, rfl, rfl, rfl, ?_⟩
  · have hin' : k * 64 + 64 ≤ (writeAt s.data (k * 64) (hf.toBytes p.1 ++ hf.toBytes p.2)).length := by
      rw [length_writeAt, hb]; omega
    rw [load_some hf fl
        (s := { s with data := writeAt s.data (k * 64) (hf.toBytes p.1 ++ hf.toBytes p.2) })
        hne hsl hin', blockAt_writeAt_self _ _ _ hb, parsePair_bytes hf hlen hrt]
  · simp only [length_writeAt, hb]

example : ∃ s', (⟨.preIo, 0, ⟨5000, 0⟩, []⟩ : Store UInt8).save toyHash 2 (5, 6) = .ok s' ∧
    s'.load toyHash .sync 2 = .ok (some (5, 6)) ∧ s'.kind = .preIo ∧
    s'.tree = ⟨5000, 0⟩ ∧ s'.root = 0 ∧ s'.data.length = max 0 (3 * 64 + 64) :=
  save_load_same_io toyHash toy_len toy_rt .sync ⟨.preIo, 0, ⟨5000, 0⟩, []⟩ (.inl rfl) 2 3 (5, 6)
    (by decide)

/-! ## 2. every other node is untouched -/

/-- a successful save into slot `k` does not change what `load` returns for any node whose slot is
not `k` (persisted or not, even ids outside the tree) -/
theorem save_load_other_slot (hf : HashFns H) (hlen : ∀ h, (hf.toBytes h).length = 32)
    (fl : Flavour) (s s' : Store H) (hk : s.kind ≠ .empty)
    (hdl : s.data.length = s.tree.outboardSize) (n m k : Nat) (p : H × H)
    (hsl : s.slot n = some k) (hkb : k < s.tree.blocks - 1) (hm : s.slot m ≠ some k)
    (hsv : s.save hf n p = .ok s') : s'.load hf fl m = s.load hf fl m := by
  have hsz : s.tree.outboardSize = (s.tree.blocks - 1) * 64 := rfl
  have hin : k * 64 + 64 ≤ s.data.length := by omega
  have hb := pair_bytes_length hf hlen p
  rw [save_some hf hk hsl hin p] at hsv
  injection hsv with hsv
  subst hsv
  apply load_congr hf fl (s := s)
    (s' := { s with data := writeAt s.data (k * 64) (hf.toBytes p.1 ++ hf.toBytes p.2) }) m rfl rfl
  · intro j _
    simp only [length_writeAt, hb]
    omega
  · intro j hj hjin
    exact blockAt_writeAt_ne _ _ _ _ hb (fun h => hm (by rw [hj, h])) hjin

example : ∀ s', (toyStore .preMem).save toyHash 1 (5, 6) = .ok s' →
    s'.load toyHash .sync 4 = (toyStore .preMem).load toyHash .sync 4 :=
  fun s' h => save_load_other_slot toyHash toy_len .sync (toyStore .preMem) s' (by decide)
    (toy_dl _) 1 4 1 (5, 6) (by decide) (by decide) (by decide) h

/-- two DIFFERENT persisted nodes: saving one leaves the other (C12 injectivity) -/
theorem save_load_other (hf : HashFns H) (hlen : ∀ h, (hf.toBytes h).length = 32)
    (fl : Flavour) (s s' : Store H) (hdl : s.data.length = s.tree.outboardSize)
    (hs : s.tree.size ≤ 2 ^ 63) (hbs : s.tree.bs ≤ 10) (n m : Nat) (p : H × H)
    (hn : n ∈ persisted s) (hm : m ∈ persisted s) (hne : n ≠ m)
    (hsv : s.save hf n p = .ok s') : s'.load hf fl m = s.load hf fl m := by
  obtain ⟨i, hi, -, hsl, hib⟩ := slot_of_mem s hs hbs hn
  have hk : s.kind ≠ .empty := by
    intro h; rw [persisted_empty h] at hn; cases hn
  have hne' := slot_ne_of_mem s hs hbs hn hm hne
  rw [hsl] at hne'
  exact save_load_other_slot hf hlen fl s s' hk hdl n m i p hsl hib hne' hsv

example : ∀ s', (toyStore .preMem).save toyHash 1 (5, 6) = .ok s' →
    s'.load toyHash .sync 2 = (toyStore .preMem).load toyHash .sync 2 :=
  fun s' h => save_load_other toyHash toy_len .sync (toyStore .preMem) s' (toy_dl _) (toy_size _)
    (toy_bs _) 1 2 (5, 6) (by rw [toy_pre]; decide) (by rw [toy_pre]; decide) (by decide) h

/-- the hypothesis on the length of the backing is needed for the io kinds: on an EMPTY backing a
save at slot 3 zero-extends the file, and slot 1, which `read_exact_at` could not read before, now
reads as zeros -/
example : ∃ s', (⟨.preIo, 0, ⟨5000, 0⟩, []⟩ : Store UInt8).save toyHash 2 (5, 6) = .ok s' ∧
    (⟨.preIo, 0, ⟨5000, 0⟩, []⟩ : Store UInt8).load toyHash .sync 1
      = .err ⟨.unexpectedEof, false⟩ ∧
    s'.load toyHash .sync 1 = .ok (some (0, 0)) := ⟨_, rfl, by decide, by decide⟩

/-- "persisted" is needed: id `7` is not a node of the 5-chunk tree, but the offset function maps it
to slot `0`, the slot of the root `3` — a save at id 7 overwrites the record of the root -/
example : (toyStore .preIo).slot 7 = some 0 ∧ (toyStore .preIo).slot 3 = some 0 ∧
    (toyStore .postIo).slot 5 = some 2 ∧ (toyStore .postIo).slot 1 = some 2 := by decide

/-! ## 3. the bytes -/

/-- saving the `i`-th node of the persisted list of the store's order replaces exactly the bytes
`[64 i, 64 i + 64)` of the backing by `toBytes p.1 ++ toBytes p.2` (no offset function in the
statement: the index in the recursive traversal IS the record number) -/
theorem save_bytes (hf : HashFns H) (hlen : ∀ h, (hf.toBytes h).length = 32)
    (s s' : Store H) (hdl : s.data.length = s.tree.outboardSize)
    (hs : s.tree.size ≤ 2 ^ 63) (hbs : s.tree.bs ≤ 10) (i : Nat) (hi : i < (persisted s).length)
    (p : H × H) (hsv : s.save hf (persisted s)[i] p = .ok s') :
    s'.data = s.data.take (64 * i) ++ (hf.toBytes p.1 ++ hf.toBytes p.2) ++ s.data.drop (64 * i + 64)
      ∧ s'.kind = s.kind ∧ s'.tree = s.tree ∧ s'.root = s.root := by
  have hk : s.kind ≠ .empty := by
    intro h; rw [persisted_empty h] at hi; exact absurd hi (Nat.not_lt_zero _)
  have hl := persisted_length s hk hs hbs
  have hsz : s.tree.outboardSize = (s.tree.blocks - 1) * 64 := rfl
  have hin : i * 64 + 64 ≤ s.data.length := by omega
  have hb := pair_bytes_length hf hlen p
  rw [save_some hf hk (slot_persisted s hs hbs i hi) hin p] at hsv
  injection hsv with hsv
  subst hsv
  refine ⟨?_, rfl, rfl, rfl⟩
  simp only
  rw [writeAt_slot _ _ _ hb hin, Nat.mul_comm 64 i]

example : ∀ s', (toyStore .preMem).save toyHash 1 (5, 6) = .ok s' →
    s'.data = (toyStore .preMem).data.take (64 * 1) ++
      (toyHash.toBytes 5 ++ toyHash.toBytes 6) ++ (toyStore .preMem).data.drop (64 * 1 + 64) ∧
    s'.kind = .preMem ∧ s'.tree = ⟨5000, 0⟩ ∧ s'.root = 0 :=
  fun s' h => save_bytes toyHash toy_len (toyStore .preMem) s' (toy_dl _) (toy_size _) (toy_bs _)
    1 (by rw [toy_pre]; decide) (5, 6) (by simpa only [toy_pre, List.getElem_cons_succ, List.getElem_cons_zero] using h)

/-- the same, byte by byte: inside the record the written bytes, outside the old ones -/
theorem save_bytes_get (hf : HashFns H) (hlen : ∀ h, (hf.toBytes h).length = 32)
    (s s' : Store H) (hdl : s.data.length = s.tree.outboardSize)
    (hs : s.tree.size ≤ 2 ^ 63) (hbs : s.tree.bs ≤ 10) (i : Nat) (hi : i < (persisted s).length)
    (p : H × H) (hsv : s.save hf (persisted s)[i] p = .ok s') (j : Nat) :
    s'.data[j]? = if 64 * i ≤ j ∧ j < 64 * i + 64
      then (hf.toBytes p.1 ++ hf.toBytes p.2)[j - 64 * i]? else s.data[j]? := by
  have hk : s.kind ≠ .empty := by
    intro h; rw [persisted_empty h] at hi; exact absurd hi (Nat.not_lt_zero _)
  have hl := persisted_length s hk hs hbs
  have hsz : s.tree.outboardSize = (s.tree.blocks - 1) * 64 := rfl
  have hin : i * 64 + 64 ≤ s.data.length := by omega
  have hb := pair_bytes_length hf hlen p
  rw [save_some hf hk (slot_persisted s hs hbs i hi) hin p] at hsv
  injection hsv with hsv
  subst hsv
  rw [Nat.mul_comm 64 i]
  simp only [getElem?_writeAt, hb]
  by_cases h3 : i * 64 ≤ j ∧ j < i * 64 + 64
  · rw [if_pos h3]
    have h1 : ¬ j < i * 64 := by omega
    have h2 : j < i * 64 + 64 := h3.2
    simp only [h1, h2, if_true, if_false]
  · rw [if_neg h3]
    by_cases h1 : j < i * 64
    · have h2 : j < s.data.length := by omega
      simp only [h1, h2, if_true]
    · have h2 : ¬ j < i * 64 + 64 := by omega
      simp only [h1, h2, if_false]

example : ∀ s', (toyStore .postIo).save toyHash 1 (5, 6) = .ok s' →
    s'.data[130]? = some 5 :=
  fun s' h => by
    have := save_bytes_get toyHash toy_len (toyStore .postIo) s' (toy_dl _) (toy_size _) (toy_bs _)
      2 (by rw [toy_post]; decide) (5, 6) (by simpa only [toy_post, List.getElem_cons_succ, List.getElem_cons_zero] using h) 130
    rw [this]; decide

/-- item 3 spelled out for the pre-order kinds, without `persisted` -/
theorem save_bytes_pre (hf : HashFns H) (hlen : ∀ h, (hf.toBytes h).length = 32)
    (s s' : Store H) (hkind : s.kind = .preIo ∨ s.kind = .preMem)
    (hdl : s.data.length = s.tree.outboardSize)
    (hs : s.tree.size ≤ 2 ^ 63) (hbs : s.tree.bs ≤ 10) (i : Nat)
    (hi : i < (Spec.persistedPre s.tree.size s.tree.bs).length)
    (p : H × H) (hsv : s.save hf (Spec.persistedPre s.tree.size s.tree.bs)[i] p = .ok s') :
    s'.data
      = s.data.take (64 * i) ++ (hf.toBytes p.1 ++ hf.toBytes p.2) ++ s.data.drop (64 * i + 64) := by
  have e := persisted_pre hkind
  have hi' : i < (persisted s).length := by rw [e]; exact hi
  have hsv' : s.save hf (persisted s)[i] p = .ok s' := by simpa only [e] using hsv
  exact (save_bytes hf hlen s s' hdl hs hbs i hi' p hsv').1

example : ∀ s', (toyStore .preIo).save toyHash (Spec.persistedPre 5000 0)[2] (5, 6) = .ok s' →
    s'.data = (toyStore .preIo).data.take (64 * 2) ++
      (toyHash.toBytes 5 ++ toyHash.toBytes 6) ++ (toyStore .preIo).data.drop (64 * 2 + 64) :=
  fun s' h => save_bytes_pre toyHash toy_len (toyStore .preIo) s' (.inl rfl) (toy_dl _)
    (toy_size _) (toy_bs _) 2 (by decide) (5, 6) h

/-- item 3 spelled out for the post-order kinds, without `persisted` -/
theorem save_bytes_post (hf : HashFns H) (hlen : ∀ h, (hf.toBytes h).length = 32)
    (s s' : Store H) (hkind : s.kind = .postIo ∨ s.kind = .postMem)
    (hdl : s.data.length = s.tree.outboardSize)
    (hs : s.tree.size ≤ 2 ^ 63) (hbs : s.tree.bs ≤ 10) (i : Nat)
    (hi : i < (Spec.persistedPost s.tree.size s.tree.bs).length)
    (p : H × H) (hsv : s.save hf (Spec.persistedPost s.tree.size s.tree.bs)[i] p = .ok s') :
    s'.data
      = s.data.take (64 * i) ++ (hf.toBytes p.1 ++ hf.toBytes p.2) ++ s.data.drop (64 * i + 64) := by
  have e := persisted_post hkind
  have hi' : i < (persisted s).length := by rw [e]; exact hi
  have hsv' : s.save hf (persisted s)[i] p = .ok s' := by simpa only [e] using hsv
  exact (save_bytes hf hlen s s' hdl hs hbs i hi' p hsv').1

example : ∀ s', (toyStore .postMem).save toyHash (Spec.persistedPost 5000 0)[2] (5, 6) = .ok s' →
    s'.data = (toyStore .postMem).data.take (64 * 2) ++
      (toyHash.toBytes 5 ++ toyHash.toBytes 6) ++ (toyStore .postMem).data.drop (64 * 2 + 64) :=
  fun s' h => save_bytes_post toyHash toy_len (toyStore .postMem) s' (.inr rfl) (toy_dl _)
    (toy_size _) (toy_bs _) 2 (by decide) (5, 6) h

/-! ## 4. idempotent, commuting -/

/-- saving the same pair at the same node a second time changes nothing — for EVERY store (all
five kinds, any backing, any node id): no hypothesis is needed -/
theorem save_idempotent (hf : HashFns H) (s s' : Store H) (n : Nat) (p : H × H)
    (hsv : s.save hf n p = .ok s') : s'.save hf n p = .ok s' :=
  save_idem hf s s' n p hsv

example : ∀ s', (toyStore .preMem).save toyHash 1 (5, 6) = .ok s' →
    s'.save toyHash 1 (5, 6) = .ok s' :=
  fun s' h => save_idempotent toyHash _ s' 1 (5, 6) h

example : ∃ s', (toyStore .preMem).save toyHash 1 (5, 6) = .ok s' := ⟨_, rfl⟩

/-- saves into two different slots inside the outboard commute -/
theorem save_commute_slot (hf : HashFns H) (hlen : ∀ h, (hf.toBytes h).length = 32)
    (s : Store H) (hk : s.kind ≠ .empty) (hdl : s.data.length = s.tree.outboardSize)
    (n m i j : Nat) (p q : H × H) (hsi : s.slot n = some i) (hsj : s.slot m = some j)
    (hib : i < s.tree.blocks - 1) (hjb : j < s.tree.blocks - 1) (hij : j ≠ i) :
    ∃ s₁ s₂ s₁₂, s.save hf n p = .ok s₁ ∧ s.save hf m q = .ok s₂ ∧
      s₁.save hf m q = .ok s₁₂ ∧ s₂.save hf n p = .ok s₁₂ := by
  have hsz : s.tree.outboardSize = (s.tree.blocks - 1) * 64 := rfl
  have hini : i * 64 + 64 ≤ s.data.length := by omega
  have hinj : j * 64 + 64 ≤ s.data.length := by omega
  have hbp := pair_bytes_length hf hlen p
  have hbq := pair_bytes_length hf hlen q
  have hinj' : j * 64 + 64
      ≤ (writeAt s.data (i * 64) (hf.toBytes p.1 ++ hf.toBytes p.2)).length := by
    rw [length_writeAt]; omega
  have hini' : i * 64 + 64
      ≤ (writeAt s.data (j * 64) (hf.toBytes q.1 ++ hf.toBytes q.2)).length := by
    rw [length_writeAt]; omega
  refine ⟨_, _, _, save_some hf hk hsi hini p, save_some hf hk hsj hinj q,
    save_some hf
      (s := { s with data := writeAt s.data (i * 64) (hf.toBytes p.1 ++ hf.toBytes p.2) })
      hk hsj hinj' q, ?_⟩
  rw [save_some hf
    (s := { s with data := writeAt s.data (j * 64) (hf.toBytes q.1 ++ hf.toBytes q.2) })
    hk hsi hini' p]
  simp only [writeAt_comm s.data j i _ _ hbp hbq hij]

example : ∃ s₁ s₂ s₁₂, (toyStore .preIo).save toyHash 1 (5, 6) = .ok s₁ ∧
    (toyStore .preIo).save toyHash 3 (7, 8) = .ok s₂ ∧
    s₁.save toyHash 3 (7, 8) = .ok s₁₂ ∧ s₂.save toyHash 1 (5, 6) = .ok s₁₂ :=
  save_commute_slot toyHash toy_len (toyStore .preIo) (by decide) (toy_dl _) 1 3 1 0 (5, 6) (7, 8)
    (by decide) (by decide) (by decide) (by decide) (by decide)

/-- saves to two different persisted nodes commute: both orders succeed and end in the SAME store
(same kind, root, tree and backing) -/
theorem save_commute (hf : HashFns H) (hlen : ∀ h, (hf.toBytes h).length = 32)
    (s : Store H) (hdl : s.data.length = s.tree.outboardSize)
    (hs : s.tree.size ≤ 2 ^ 63) (hbs : s.tree.bs ≤ 10) (n m : Nat) (p q : H × H)
    (hn : n ∈ persisted s) (hm : m ∈ persisted s) (hne : n ≠ m) :
    ∃ s₁ s₂ s₁₂, s.save hf n p = .ok s₁ ∧ s.save hf m q = .ok s₂ ∧
      s₁.save hf m q = .ok s₁₂ ∧ s₂.save hf n p = .ok s₁₂ := by
  obtain ⟨i, -, -, hsi, hib⟩ := slot_of_mem s hs hbs hn
  obtain ⟨j, -, -, hsj, hjb⟩ := slot_of_mem s hs hbs hm
  have hk : s.kind ≠ .empty := by
    intro h; rw [persisted_empty h] at hn; cases hn
  have hij : j ≠ i := by
    have := slot_ne_of_mem s hs hbs hn hm hne
    rw [hsi, hsj] at this
    exact fun h => this (by rw [h])
  exact save_commute_slot hf hlen s hk hdl n m i j p q hsi hsj hib hjb hij

example : ∃ s₁ s₂ s₁₂, (toyStore .postMem).save toyHash 1 (5, 6) = .ok s₁ ∧
    (toyStore .postMem).save toyHash 3 (7, 8) = .ok s₂ ∧
    s₁.save toyHash 3 (7, 8) = .ok s₁₂ ∧ s₂.save toyHash 1 (5, 6) = .ok s₁₂ :=
  save_commute toyHash toy_len (toyStore .postMem) (toy_dl _) (toy_size _) (toy_bs _) 1 3 (5, 6)
    (7, 8) (by decide) (by decide) (by decide)

/-- `save_commute` in the "given the four results" form -/
theorem save_commute_eq (hf : HashFns H) (hlen : ∀ h, (hf.toBytes h).length = 32)
    (s s₁ s₂ s₁₂ s₂₁ : Store H) (hdl : s.data.length = s.tree.outboardSize)
    (hs : s.tree.size ≤ 2 ^ 63) (hbs : s.tree.bs ≤ 10) (n m : Nat) (p q : H × H)
    (hn : n ∈ persisted s) (hm : m ∈ persisted s) (hne : n ≠ m)
    (h1 : s.save hf n p = .ok s₁) (h12 : s₁.save hf m q = .ok s₁₂)
    (h2 : s.save hf m q = .ok s₂) (h21 : s₂.save hf n p = .ok s₂₁) : s₁₂ = s₂₁ := by
  obtain ⟨t₁, t₂, t₁₂, g1, g2, g12, g21⟩ := save_commute hf hlen s hdl hs hbs n m p q hn hm hne
  rw [h1] at g1; injection g1 with g1; subst g1
  rw [h2] at g2; injection g2 with g2; subst g2
  rw [h12] at g12; injection g12 with g12
  rw [h21] at g21; injection g21 with g21
  rw [g12, g21]

example : ∀ s₁ s₂ s₁₂ s₂₁, (toyStore .preMem).save toyHash 1 (5, 6) = .ok s₁ →
    s₁.save toyHash 2 (7, 8) = .ok s₁₂ → (toyStore .preMem).save toyHash 2 (7, 8) = .ok s₂ →
    s₂.save toyHash 1 (5, 6) = .ok s₂₁ → s₁₂ = s₂₁ :=
  fun s₁ s₂ s₁₂ s₂₁ => save_commute_eq toyHash toy_len (toyStore .preMem) s₁ s₂ s₁₂ s₂₁ (toy_dl _)
    (toy_size _) (toy_bs _) 1 2 (5, 6) (7, 8) (by decide) (by decide) (by decide)

/-- the io kinds: saves into two different slots commute on ANY backing (also a short one that
both writes zero-extend) and for any ids -/
theorem save_commute_io (hf : HashFns H) (hlen : ∀ h, (hf.toBytes h).length = 32)
    (s : Store H) (hk : s.kind = .preIo ∨ s.kind = .postIo)
    (n m i j : Nat) (p q : H × H) (hsi : s.slot n = some i) (hsj : s.slot m = some j)
    (hij : j ≠ i) :
    ∃ s₁ s₂ s₁₂, s.save hf n p = .ok s₁ ∧ s.save hf m q = .ok s₂ ∧
      s₁.save hf m q = .ok s₁₂ ∧ s₂.save hf n p = .ok s₁₂ := by
  have hbp := pair_bytes_length hf hlen p
  have hbq := pair_bytes_length hf hlen q
  refine ⟨_, _, _, save_io hf hk hsi p, save_io hf hk hsj q,
    save_io hf
      (ob := { s with data := writeAt s.data (i * 64) (hf.toBytes p.1 ++ hf.toBytes p.2) })
      hk hsj q, ?_⟩
  rw [save_io hf
    (ob := { s with data := writeAt s.data (j * 64) (hf.toBytes q.1 ++ hf.toBytes q.2) })
    hk hsi p]
  simp only [writeAt_comm s.data j i _ _ hbp hbq hij]

example : ∃ s₁ s₂ s₁₂,
    (⟨.postIo, 0, ⟨5000, 0⟩, []⟩ : Store UInt8).save toyHash 1 (5, 6) = .ok s₁ ∧
    (⟨.postIo, 0, ⟨5000, 0⟩, []⟩ : Store UInt8).save toyHash 0 (7, 8) = .ok s₂ ∧
    s₁.save toyHash 0 (7, 8) = .ok s₁₂ ∧ s₂.save toyHash 1 (5, 6) = .ok s₁₂ :=
  save_commute_io toyHash toy_len ⟨.postIo, 0, ⟨5000, 0⟩, []⟩ (.inr rfl) 1 0 2 0 (5, 6) (7, 8)
    (by decide) (by decide) (by decide)

/-! ## 5. nodes that are not persisted -/

/-- a node without slot: the io kinds ignore the save, the memory kinds refuse it -/
theorem save_not_persisted (hf : HashFns H) (s : Store H) (n : Nat) (p : H × H)
    (hsl : s.slot n = none) :
    ((s.kind = .preIo ∨ s.kind = .postIo) → s.save hf n p = .ok s) ∧
    ((s.kind = .preMem ∨ s.kind = .postMem) → s.save hf n p = .err ⟨.invalidInput, false⟩) := by
  constructor
  · intro hk
    unfold Store.save; rcases hk with h | h <;> simp only [h, hsl]
  · intro hk
    unfold Store.save; rcases hk with h | h <;> simp only [h, hsl]

example : (toyStore .preIo).save toyHash 4 (5, 6) = .ok (toyStore .preIo) :=
  (save_not_persisted toyHash (toyStore .preIo) 4 (5, 6) (by decide)).1 (.inl rfl)

example : (toyStore .postMem).save toyHash 4 (5, 6) = .err ⟨.invalidInput, false⟩ :=
  (save_not_persisted toyHash (toyStore .postMem) 4 (5, 6) (by decide)).2 (.inr rfl)

/-- a node without slot loads as "not stored" -/
theorem load_not_persisted (hf : HashFns H) (fl : Flavour) (s : Store H) (n : Nat)
    (hsl : s.slot n = none) : s.load hf fl n = .ok none := by
  by_cases hk : s.kind = .empty
  · unfold Store.slot at hsl
    simp only [hk] at hsl
    unfold Store.load
    simp only [hk]
    split at hsl
    · cases hsl
    · rename_i h; simp only [h]; rfl
  · exact load_none hf fl s hk n hsl

example : (toyStore .preIo).load toyHash .fsm 4 = .ok none :=
  load_not_persisted toyHash .fsm (toyStore .preIo) 4 (by decide)

/-- the nodes of the tree: below the block level, persisted, or the half leaf -/
theorem inTree_iff (t : Tree) (hs : t.size ≤ 2 ^ 63) (hbs : t.bs ≤ 10) (x : Nat) :
    InTree t x ↔ Node.level x < t.bs ∨ x ∈ Spec.persistedPre t.size t.bs ∨
      (t.blocks % 2 = 1 ∧ x = Node.subBs (t.blocks - 1) t.bs) := by
  unfold InTree
  rw [mem_iter_iff t hs hbs x]
  rfl

example : InTree ⟨5000, 0⟩ 4 ↔ Node.level 4 < 0 ∨ 4 ∈ Spec.persistedPre 5000 0 ∨
    (Tree.blocks ⟨5000, 0⟩ % 2 = 1 ∧ 4 = Node.subBs (Tree.blocks ⟨5000, 0⟩ - 1) 0) :=
  inTree_iff ⟨5000, 0⟩ (by decide) (by decide) 4

/-- for the nodes OF THE TREE (all five kinds): the slot is `none` exactly for the nodes below the
block level and for the half-filled last leaf of an odd number of chunk groups -/
theorem slot_none_iff (s : Store H) (hs : s.tree.size ≤ 2 ^ 63) (hbs : s.tree.bs ≤ 10) (x : Nat)
    (hx : InTree s.tree x) :
    s.slot x = none ↔
      Node.level x < s.tree.bs ∨
        (s.tree.blocks % 2 = 1 ∧ x = Node.subBs (s.tree.blocks - 1) s.tree.bs) := by
  refine ⟨fun hsl => ?_, slot_none_of s hs hbs x⟩
  rcases hx with hx | hx
  · exact .inl hx
  · rcases (mem_iter_iff s.tree hs hbs x).1 hx with hp | hh
    · obtain ⟨k, hk⟩ := slot_some_of_persisted s hs hbs x hp
      rw [hk] at hsl; cases hsl
    · exact .inr hh

example : (toyStore .preMem).slot 4 = none ↔
    Node.level 4 < (toyStore .preMem).tree.bs ∨
      ((toyStore .preMem).tree.blocks % 2 = 1 ∧
        4 = Node.subBs ((toyStore .preMem).tree.blocks - 1) (toyStore .preMem).tree.bs) :=
  slot_none_iff (toyStore .preMem) (toy_size _) (toy_bs _) 4 (.inr (by decide))

/-! ## 6. the `EmptyOutboard` -/

/-- kind `.empty`: a relevant node loads as the zero pair and its save is accepted and dropped; a
non relevant node loads as "not stored" and its save is refused; a successful save never changes
the store -/
theorem empty_store (hf : HashFns H) (fl : Flavour) (s : Store H) (hk : s.kind = .empty) (n : Nat)
    (p : H × H) :
    (s.tree.isRelevant n = true →
      s.load hf fl n = .ok (some (hf.ofBytes zeros32, hf.ofBytes zeros32)) ∧
      s.save hf n p = .ok s) ∧
    (s.tree.isRelevant n = false →
      s.load hf fl n = .ok none ∧ s.save hf n p = .err ⟨.invalidInput, false⟩) ∧
    (∀ s', s.save hf n p = .ok s' → s' = s) := by
  refine ⟨fun h => ⟨?_, ?_⟩, fun h => ⟨?_, ?_⟩, fun s' hsv => ?_⟩
  · unfold Store.load; simp only [hk, h, if_true]
  · unfold Store.save; simp only [hk, h, if_true]
  · unfold Store.load; simp only [hk, h]; rfl
  · unfold Store.save; simp only [hk, h]; rfl
  · unfold Store.save at hsv
    simp only [hk] at hsv
    split at hsv
    · injection hsv with hsv; exact hsv.symm
    · cases hsv

example : (toyStore .empty).load toyHash .sync 1
      = .ok (some (toyHash.ofBytes zeros32, toyHash.ofBytes zeros32)) ∧
    (toyStore .empty).save toyHash 1 (5, 6) = .ok (toyStore .empty) :=
  (empty_store toyHash .sync (toyStore .empty) rfl 1 (5, 6)).1 (by decide)

example : (toyStore .empty).load toyHash .sync 4 = .ok none ∧
    (toyStore .empty).save toyHash 4 (5, 6) = .err ⟨.invalidInput, false⟩ :=
  (empty_store toyHash .sync (toyStore .empty) rfl 4 (5, 6)).2.1 (by decide)

/-! ## 7. no panic -/

/-- the slot of a node of the tree, if it has one, lies inside the outboard -/
theorem slot_lt_of_inTree (s : Store H) (hk : s.kind ≠ .empty) (hs : s.tree.size ≤ 2 ^ 63)
    (hbs : s.tree.bs ≤ 10) (x k : Nat) (hx : InTree s.tree x) (hsl : s.slot x = some k) :
    k < s.tree.blocks - 1 := by
  have hiff := slot_none_iff s hs hbs x hx
  rcases hx with hx | hx
  · rw [hiff.2 (.inl hx)] at hsl; cases hsl
  · rcases (mem_iter_iff s.tree hs hbs x).1 hx with hp | hh
    · obtain ⟨i, -, -, hsi, hib⟩ := slot_of_mem s hs hbs ((mem_persisted_iff s hk hs x).2 hp)
      rw [hsi] at hsl; injection hsl with hsl; omega
    · rw [hiff.2 (.inr hh)] at hsl; cases hsl

example : 3 < (toyStore .postMem).tree.blocks - 1 :=
  slot_lt_of_inTree (toyStore .postMem) (by decide) (toy_size _) (toy_bs _) 3 3 (.inr (by decide))
    (by decide)

/-- backing of the outboard size, node of the tree: neither `load` nor `save` panics (any kind) -/
theorem no_panic (hf : HashFns H) (fl : Flavour) (s : Store H)
    (hdl : s.data.length = s.tree.outboardSize) (hs : s.tree.size ≤ 2 ^ 63) (hbs : s.tree.bs ≤ 10)
    (x : Nat) (hx : InTree s.tree x) (p : H × H) :
    s.load hf fl x ≠ .panic ∧ s.save hf x p ≠ .panic := by
  have hsz : s.tree.outboardSize = (s.tree.blocks - 1) * 64 := rfl
  by_cases hk : s.kind = .empty
  · constructor
    · unfold Store.load; simp only [hk]; exact fun h => by cases h
    · unfold Store.save; simp only [hk]; split <;> exact fun h => by cases h
  · cases hsl : s.slot x with
    | none =>
      rw [load_not_persisted hf fl s x hsl]
      refine ⟨fun h => (by cases h), ?_⟩
      obtain ⟨h1, h2⟩ := save_not_persisted hf s x p hsl
      rcases kind_cases' s with h | h | h
      · rw [h1 h]; exact fun h => by cases h
      · rw [h2 h]; exact fun h => by cases h
      · exact absurd h hk
    | some k =>
      have hkb := slot_lt_of_inTree s hk hs hbs x k hx hsl
      have hin : k * 64 + 64 ≤ s.data.length := by omega
      rw [load_some hf fl hk hsl hin, save_some hf hk hsl hin p]
      exact ⟨fun h => (by cases h), fun h => (by cases h)⟩

example : (toyStore .preMem).load toyHash .sync 4 ≠ .panic ∧
    (toyStore .preMem).save toyHash 4 (5, 6) ≠ .panic :=
  no_panic toyHash .sync (toyStore .preMem) (toy_dl _) (toy_size _) (toy_bs _) 4
    (.inr (by decide)) (5, 6)

/-- the io kinds and the `EmptyOutboard` never panic: any backing, any id -/
theorem no_panic_io (hf : HashFns H) (fl : Flavour) (s : Store H)
    (hk : s.kind ≠ .preMem ∧ s.kind ≠ .postMem) (x : Nat) (p : H × H) :
    s.load hf fl x ≠ .panic ∧ s.save hf x p ≠ .panic :=
  not_panic_io hf fl s hk x p

example : (toyStore .preIo).load toyHash .sync 9 ≠ .panic ∧
    (toyStore .preIo).save toyHash 9 (5, 6) ≠ .panic :=
  no_panic_io toyHash .sync (toyStore .preIo) (by decide) 9 (5, 6)

/-- WITHOUT "node of the tree" the statement is false for the memory kinds: id `9` is not a node of
the 5-chunk tree, the offset function still answers `some 7`, and the slice index is out of range -/
example : (toyStore .preMem).slot 9 = some 7 ∧
    (toyStore .preMem).load toyHash .sync 9 = .panic ∧
    (toyStore .preMem).save toyHash 9 (5, 6) = .panic := ⟨by decide, by decide, rfl⟩

end Bao.C12Store

/-
Status (task A1, store algebra).  Hypotheses throughout: `hlen` (hashes are 32 bytes), `hrt` (byte
round trip; only where a pair is read back), `hdl : s.data.length = s.tree.outboardSize`,
`hs : s.tree.size ≤ 2^63`, `hbs : s.tree.bs ≤ 10` (only where C12 is used), every flavour.

PROVED (full strength, no `_partial`):
  1. `save_load_same`        slot `k < blocks-1`: save ok, load gives the saved pair, kind / tree / root /
                             length kept.        `save_load_same_mem` (node of `persisted s`),
                             `save_load_same_io` (io kinds: ANY backing, grows to `max len (64k+64)`).
  2. `save_load_other_slot`  load of EVERY node with another slot is unchanged (even ids outside the tree);
     `save_load_other`       two different persisted nodes (C12 injectivity).
  3. `save_bytes`            `s'.data = take (64 i) ++ bytes ++ drop (64 i + 64)`, `i` = index in
                             `persisted s`; `save_bytes_get` (byte by byte); `save_bytes_pre`,
                             `save_bytes_post` (spelled out with `Spec.persistedPre/Post`).
  4. `save_idempotent`       for every store of every kind, any id, any backing: no hypothesis at all.
     `save_commute`          both orders succeed and give the SAME store; `save_commute_eq`,
                             `save_commute_slot`, `save_commute_io` (io kinds, any backing, any ids).
  5. `save_not_persisted`, `load_not_persisted`, `slot_none_iff` (all five kinds; nodes of the tree =
     `InTree`, characterised by `inTree_iff`).
  6. `empty_store`.
  7. `no_panic` (all kinds, nodes of the tree), `no_panic_io` (io kinds and empty: never),
     `slot_lt_of_inTree`.
PARTIAL: none.   OPEN: none.

Axioms (`#print axioms`): `save_not_persisted`, `load_not_persisted`, `empty_store`, `no_panic_io`:
[propext]; `save_load_same`, `save_load_same_io`, `save_idempotent`: [propext, Quot.sound]; all the
others: [propext, Classical.choice, Quot.sound].

Where the hypotheses are needed (the `example`s above):
  * item 2 without `hdl` is FALSE for the io kinds: on an empty backing, tree ⟨5000,0⟩, `preIo`, a save
    of node 2 (slot 3) zero-extends the file and `load .sync 1` changes from `.err unexpectedEof` to
    `.ok (some (0,0))`.
  * item 2 without "persisted" is FALSE: ids outside the tree alias persisted slots
    (⟨5000,0⟩: pre-order id 7 ↦ slot 0 = slot of the root 3; post-order id 5 ↦ slot 2 = slot of node 1).
  * item 7 without "node of the tree" is FALSE for the memory kinds: ⟨5000,0⟩ `preMem`, id 9 ↦ slot 7 ≥ 4,
    `load` and `save` are `.panic` (slice index out of range in the code).
-/
