import BaoProofs.Lemmas.HistValidL
import BaoProofs.Props.C06

/-!
# C07, second half: labelled saves, ancestors before leaves, convergence, the validator

`Props/C07.lean` proves, for every history of fault-injected `decode_ranges` calls with ARBITRARY
streams into one sink whose outboard carries the true root: the target is the initial one after
writes of true leaves, every saved pair is the true pair of SOME node.  Here the claimed geometry is
the TRUE one, `sink.ob.tree = ⟨d.length, bs⟩` (with a wrong claimed size the node labels of the
claimed tree are meaningless, DESIGN.md C01), and the node labels are followed through the run.

Vocabulary (`Lemmas/HistLabelL.lean`, `HistLogL.lean`, `HistSlotL.lean`, `HistValidL.lean`,
namespace `Bao.C07L`; `Ev`, `applyEvs`, `writes`, `saves` are those of C10, `Lemmas/FaultL.lean`):
* `Ev.save node l r` / `Ev.write off data` – one COMPLETED call on the outboard / on the target;
  `applyEvs hf sink es` – the sink after the calls `es`; `EvsOk hf sink es` – every save of `es`
  succeeds when `es` is applied in order; `SavesOk hf ob pl` – the same for a list of saves;
* `(c / 2^(L+1), L)` is the ancestor of chunk `c` at level `L`; it exists iff
  `midOf (c / 2^(L+1)) L < nChunks d.length`, and is persisted iff moreover `bs ≤ L`;
* `LabelledLog hf d bs ops sink es` – `es` is a log of the history: the final sink is the initial
  one after the completed calls `es`, all successful, every save of `es` writes the true pair of an
  existing node of level `≥ bs` under that node's own label, and every write of `es` writes a true
  leaf all of whose existing ancestors of level `≥ bs` have been saved EARLIER in `es`
  (`Trace (EG hf d bs) [] es`; spelled out by `log_order`).  `history_log`: every history has one.
  The delivered list of C07 is `FaultL.writes es`; all `log_*` theorems speak about the same `es`;
* `Holds hf d ob x` – the slot of node `x` in `ob` exists, lies inside the backing, and its 64 bytes
  are `Spec.pairBytes hf d x`;
* `Cov wl i` – byte position `i` lies in a write of `wl` (the delivered positions, as in C07);
* `RtTrue hf d bs` – the stored bytes of the true pair of every existing node of level `≥ bs` parse
  back to that pair (the round trip on the finitely many hashes of the true tree only).

Hypotheses: `CollisionFree hf`, `d.length ≤ 2^63`; for everything about stored bytes `bs ≤ 10` and
`hlen : ∀ h, (hf.toBytes h).length = 32`; for the validator `RtTrue hf d bs`.  `CollisionFree hf`,
`hlen` and `RtTrue` are jointly satisfiable (`rtHash`), whereas together with the GLOBAL round trip
`∀ h, ofBytes (toBytes h) = h` they are not (`Lemmas/CFUnsat.lean`); no theorem here assumes the
global round trip.
-/

set_option maxRecDepth 8192

namespace Bao.C07

open Bao Bao.Spec Bao.C01 Bao.C07L
open Bao.FaultL (Ev applyEvs)

variable {H : Type} [BEq H] [LawfulBEq H] {hf : HashFns H} {d : List UInt8} {bs : Nat}

/-! ## Stages A and B: the labelled log of a history -/

/-- `es` is a labelled log of the history `ops` from `sink`: see the header -/
def LabelledLog (hf : HashFns H) (d : List UInt8) (bs : Nat) (ops : List Op) (sink : Sink H)
    (es : List (Ev H)) : Prop :=
  run hf ops sink = applyEvs hf sink es ∧ EvsOk hf sink es ∧ Trace (EG hf d bs) [] es

/-- **Every history has a labelled log.**  (Arbitrary streams, arbitrary faults; true root, true
geometry.) -/
theorem history_log (cf : CollisionFree hf) (hd : d.length ≤ 2 ^ 63) (ops : List Op)
    (sink : Sink H) (hroot : sink.ob.root = Spec.root hf d)
    (htree : sink.ob.tree = ⟨d.length, bs⟩) : ∃ es, LabelledLog hf d bs ops sink es :=
  run_log cf hd ops sink hroot htree

omit [LawfulBEq H] in
/-- what a labelled log says, position by position: every save writes the true pair of an existing
node of level `≥ bs` under its own label; every write is the write of a true leaf `[c, e)` such
that for every chunk `x` of the leaf every existing ancestor of `x` of level `≥ bs` has been saved
EARLIER in the log -/
theorem log_order {ops : List Op} {sink : Sink H} {es : List (Ev H)}
    (h : LabelledLog hf d bs ops sink es) :
    (∀ a node l r b, es = a ++ Ev.save node l r :: b →
      ∃ k L, bs ≤ L ∧ midOf k L < nChunks d.length ∧ node = nodeOf k L ∧
        (l, r) = Spec.pair hf d k L) ∧
    (∀ a off data b, es = a ++ Ev.write off data :: b →
      ∃ c e, Sub d c e ∧ off = c * 1024 ∧ data = slice d c e ∧
        ∀ x, c ≤ x → x < e → ∀ L, bs ≤ L → midOf (x / 2 ^ (L + 1)) L < nChunks d.length →
          Ev.save (nodeOf (x / 2 ^ (L + 1)) L) (Spec.pair hf d (x / 2 ^ (L + 1)) L).1
            (Spec.pair hf d (x / 2 ^ (L + 1)) L).2 ∈ a) := by
  obtain ⟨-, -, h3⟩ := h
  refine ⟨?_, ?_⟩
  · rintro a node l r b rfl
    obtain ⟨k, L, -, hb, hm, hx⟩ := Trace.split a _ b [] h3
    simp only [sEv, Ev.save.injEq] at hx
    obtain ⟨rfl, rfl, rfl⟩ := hx
    exact ⟨k, L, hb, hm, rfl, rfl⟩
  · rintro a off data b rfl
    obtain ⟨c, e, g1, -, g3, g4, g5⟩ := Trace.split a _ b [] h3
    refine ⟨c, e, g1, g3, g4, fun x hx1 hx2 L hb hm => ?_⟩
    have := g5 x hx1 hx2 L hb hm
    rw [List.append_nil, List.mem_reverse] at this
    exact this

omit [LawfulBEq H] in
/-- the writes of a labelled log are a delivered list in the sense of `C07.inv`: writes of true
leaves, and the target is the initial target after them -/
theorem log_target {ops : List Op} {sink : Sink H} {es : List (Ev H)}
    (h : LabelledLog hf d bs ops sink es) :
    (∀ w ∈ FaultL.writes es, TrueLeaf d w.1 w.2) ∧
    (run hf ops sink).target = applyWrites sink.target (FaultL.writes es) :=
  ⟨trace_trueLeaf h.2.2, by rw [h.1, FaultL.applyEvs_target, applyWrites_eq]⟩

omit [LawfulBEq H] in
/-- the saves of a labelled log: all successful, each the true pair of an existing node of level
`≥ bs` under its own label; the outboard is the initial one after them -/
theorem log_saves {ops : List Op} {sink : Sink H} {es : List (Ev H)}
    (h : LabelledLog hf d bs ops sink es) :
    (∀ p ∈ FaultL.saves es, ∃ k L, bs ≤ L ∧ midOf k L < nChunks d.length ∧ p.1 = nodeOf k L ∧
      (p.2.1, p.2.2) = Spec.pair hf d k L) ∧
    SavesOk hf sink.ob (FaultL.saves es) ∧
    (run hf ops sink).ob = applySaves hf sink.ob (FaultL.saves es) := by
  obtain ⟨h1, h2, h3⟩ := h
  refine ⟨?_, EvsOk.saves es sink h2, by rw [h1, FaultL.applyEvs_ob, applySaves_eq]⟩
  intro p hp
  obtain ⟨k, L, -, hb, hm, hn, hp⟩ := trace_save h3 (mem_saves.1 hp)
  exact ⟨k, L, hb, hm, hn, hp⟩

/-- **Stage A: labelled saves.**  After any history into a sink with the true root and the true
geometry the outboard is the initial one after a list of SUCCESSFUL saves `(node, l, r)`, each of
which writes the true pair of an existing node of level `≥ bs` of the true tree under that node's
own label. -/
theorem saved_pairs_labelled (cf : CollisionFree hf) (hd : d.length ≤ 2 ^ 63) (ops : List Op)
    (sink : Sink H) (hroot : sink.ob.root = Spec.root hf d)
    (htree : sink.ob.tree = ⟨d.length, bs⟩) :
    ∃ pl : List (Nat × H × H),
      (∀ p ∈ pl, ∃ k L, bs ≤ L ∧ midOf k L < nChunks d.length ∧ p.1 = nodeOf k L ∧
        (p.2.1, p.2.2) = Spec.pair hf d k L) ∧
      SavesOk hf sink.ob pl ∧
      (run hf ops sink).ob = applySaves hf sink.ob pl := by
  obtain ⟨es, h⟩ := history_log (bs := bs) cf hd ops sink hroot htree
  exact ⟨_, log_saves h⟩

/-- **Stage B: ancestors before leaves, within one call.**  One fault-injected `decode_ranges` call
(arbitrary stream, arbitrary faults) is the application of a list `es` of completed calls, all
successful, in which every save writes the true pair of an existing node of level `≥ bs` under its
own label, and every write is the write of a true leaf `[c, e)` such that for every chunk `x` of the
leaf every existing ancestor of `x` of level `≥ bs` has been saved EARLIER IN THE SAME CALL. -/
theorem ancestors_saved_before_leaf (cf : CollisionFree hf) (hd : d.length ≤ 2 ^ 63)
    (fl : Flavour) (s : List UInt8) (q : Ranges) (sink : Sink H) (fw fs : Option Nat)
    (hroot : sink.ob.root = Spec.root hf d) (htree : sink.ob.tree = ⟨d.length, bs⟩) :
    ∃ es : List (Ev H),
      (decodeRangesF hf fl s q sink fw fs).1 = applyEvs hf sink es ∧ EvsOk hf sink es ∧
      (∀ a node l r b, es = a ++ Ev.save node l r :: b →
        ∃ k L, bs ≤ L ∧ midOf k L < nChunks d.length ∧ node = nodeOf k L ∧
          (l, r) = Spec.pair hf d k L) ∧
      (∀ a off data b, es = a ++ Ev.write off data :: b →
        ∃ c e, Sub d c e ∧ off = c * 1024 ∧ data = slice d c e ∧
          ∀ x, c ≤ x → x < e → ∀ L, bs ≤ L → midOf (x / 2 ^ (L + 1)) L < nChunks d.length →
            Ev.save (nodeOf (x / 2 ^ (L + 1)) L) (Spec.pair hf d (x / 2 ^ (L + 1)) L).1
              (Spec.pair hf d (x / 2 ^ (L + 1)) L).2 ∈ a) := by
  obtain ⟨es, h⟩ := history_log (bs := bs) cf hd [⟨fl, s, q, fw, fs⟩] sink hroot htree
  exact ⟨es, h.1, h.2.1, log_order h⟩

omit [LawfulBEq H] in
/-- **Stage B, consequence: the slots of the ancestors of delivered chunks hold true pairs.**
Io-backed or in-memory outboard with ANY backing: for every delivered byte position `i`, with
`c = i / 1024` its chunk, the slot of every existing ancestor of `c` of level `≥ bs` holds the true
pair of that ancestor at the end of the history (later saves to the same slot wrote the same
bytes). -/
theorem log_ancestors_hold (hlen : ∀ h, (hf.toBytes h).length = 32) (hd : d.length ≤ 2 ^ 63)
    (hbs : bs ≤ 10) {ops : List Op} {sink : Sink H} {es : List (Ev H)}
    (h : LabelledLog hf d bs ops sink es) (htree : sink.ob.tree = ⟨d.length, bs⟩)
    (hk : sink.ob.kind ≠ .empty) :
    ∀ i, Cov (FaultL.writes es) i → ∀ L, bs ≤ L →
      midOf (i / 1024 / 2 ^ (L + 1)) L < nChunks d.length →
      Holds hf d (run hf ops sink).ob (nodeOf (i / 1024 / 2 ^ (L + 1)) L) := by
  obtain ⟨P, T, -, -, h4, -⟩ := log_master hlen hd hbs ops sink htree hk h.1 h.2.1 h.2.2
  intro i hc L hb hm
  exact h4 _ L (level_lt_64 hd hm) hb hm (cov_chunk h.2.2 hc L hb hm)

/-- the same with the delivered list existentially quantified, as in `C07.inv` -/
theorem ancestors_hold (cf : CollisionFree hf) (hlen : ∀ h, (hf.toBytes h).length = 32)
    (hd : d.length ≤ 2 ^ 63) (hbs : bs ≤ 10) (ops : List Op) (sink : Sink H)
    (hroot : sink.ob.root = Spec.root hf d) (htree : sink.ob.tree = ⟨d.length, bs⟩)
    (hk : sink.ob.kind ≠ .empty) :
    ∃ wl : List (Nat × List UInt8),
      (∀ w ∈ wl, TrueLeaf d w.1 w.2) ∧
      (run hf ops sink).target = applyWrites sink.target wl ∧
      ∀ i, Cov wl i → ∀ L, bs ≤ L → midOf (i / 1024 / 2 ^ (L + 1)) L < nChunks d.length →
        Holds hf d (run hf ops sink).ob (nodeOf (i / 1024 / 2 ^ (L + 1)) L) := by
  obtain ⟨es, h⟩ := history_log (bs := bs) cf hd ops sink hroot htree
  exact ⟨_, (log_target h).1, (log_target h).2, log_ancestors_hold hlen hd hbs h htree hk⟩

/-! ## Stage C: convergence of the outboard -/

omit [LawfulBEq H] in
/-- **Convergence of the outboard.**  Io-backed or in-memory outboard whose backing is not longer
than the outboard size (e.g. pre-sized; an in-memory outboard must be exactly pre-sized for its
saves to succeed).  Once every byte position of the blob has been delivered, the outboard's backing
is exactly the outboard computed directly from the blob — `Spec.preOutboard hf d bs` for the
pre-order kinds, `Spec.postOutboard hf d bs` for the post-order kinds — and (pre-sized target) the
target is the blob. -/
theorem log_converges (hlen : ∀ h, (hf.toBytes h).length = 32) (hd : d.length ≤ 2 ^ 63)
    (hbs : bs ≤ 10) {ops : List Op} {sink : Sink H} {es : List (Ev H)}
    (h : LabelledLog hf d bs ops sink es) (htree : sink.ob.tree = ⟨d.length, bs⟩)
    (hk : sink.ob.kind ≠ .empty) (hsz : sink.ob.data.length ≤ sink.ob.tree.outboardSize)
    (hall : ∀ i, i < d.length → Cov (FaultL.writes es) i) :
    ((sink.ob.kind = .preIo ∨ sink.ob.kind = .preMem) →
      (run hf ops sink).ob.data = Spec.preOutboard hf d bs) ∧
    ((sink.ob.kind = .postIo ∨ sink.ob.kind = .postMem) →
      (run hf ops sink).ob.data = Spec.postOutboard hf d bs) ∧
    (sink.target.length = d.length → (run hf ops sink).target = d) := by
  obtain ⟨P, T, hp1, hp2, h4, h5⟩ := log_master hlen hd hbs ops sink htree hk h.1 h.2.1 h.2.2
  have h3 := h.2.2
  obtain ⟨-, r2, r3⟩ := run_root hf ops sink
  have hdata : (run hf ops sink).ob.data = P.flatMap (Spec.pairBytes hf d) := by
    refine data_eq_of_holds hlen T r3 (r2.trans htree) ?_ ?_
    · have : sink.ob.tree.outboardSize = P.length * 64 := by rw [htree, T.len]; rfl
      omega
    · intro x hx
      obtain ⟨k, L, rfl, hL, hb, hm⟩ := T.coords x hx
      have hsm := Bits.startOf_lt_midOf k L
      have hme := Bits.midOf_lt_endOf k L
      have hpos : startOf k L * 1024 < d.length :=
        Nat.lt_of_le_of_lt (Nat.mul_le_mul_right _ (Nat.le_of_lt hsm))
          ((Offsets.lt_nChunks_iff d.length (midOf k L) (by omega)).1 hm)
      have hdiv : startOf k L * 1024 / 1024 / 2 ^ (L + 1) = k := by
        rw [Nat.mul_div_cancel _ (by decide)]
        exact div_of_mem_range (Nat.le_refl _) (by omega)
      have := cov_chunk h3 (hall _ hpos) L hb (by rw [hdiv]; exact hm)
      rw [hdiv] at this
      exact h4 k L hL hb hm this
  refine ⟨fun hk1 => ?_, fun hk2 => ?_, fun htl => ?_⟩
  · rw [hdata, hp1 hk1]; rfl
  · rw [hdata, hp2 hk2]; rfl
  · rw [(log_target h).2]
    exact applyWrites_full _ sink.target htl (log_target h).1 hall

/-- the same with the delivered list existentially quantified, as in `C07.converges` -/
theorem converges_outboard (cf : CollisionFree hf) (hlen : ∀ h, (hf.toBytes h).length = 32)
    (hd : d.length ≤ 2 ^ 63) (hbs : bs ≤ 10) (ops : List Op) (sink : Sink H)
    (hroot : sink.ob.root = Spec.root hf d) (htree : sink.ob.tree = ⟨d.length, bs⟩)
    (hk : sink.ob.kind ≠ .empty) (hsz : sink.ob.data.length ≤ sink.ob.tree.outboardSize) :
    ∃ wl : List (Nat × List UInt8),
      (∀ w ∈ wl, TrueLeaf d w.1 w.2) ∧
      (run hf ops sink).target = applyWrites sink.target wl ∧
      ((∀ i, i < d.length → Cov wl i) →
        ((sink.ob.kind = .preIo ∨ sink.ob.kind = .preMem) →
          (run hf ops sink).ob.data = Spec.preOutboard hf d bs) ∧
        ((sink.ob.kind = .postIo ∨ sink.ob.kind = .postMem) →
          (run hf ops sink).ob.data = Spec.postOutboard hf d bs) ∧
        (sink.target.length = d.length → (run hf ops sink).target = d)) := by
  obtain ⟨es, h⟩ := history_log (bs := bs) cf hd ops sink hroot htree
  exact ⟨_, (log_target h).1, (log_target h).2, log_converges hlen hd hbs h htree hk hsz⟩

/-! ## Stage D: the validator after a history -/

/-- the `j`-th chunk group of the blob is completely delivered: every byte position of the blob
inside the group lies in a write of `wl` -/
def GroupDelivered (d : List UInt8) (bs : Nat) (wl : List (Nat × List UInt8)) (j : Nat) : Prop :=
  ∀ i, toBytes (ValidL.groupRange ⟨d.length, bs⟩ j).1 ≤ i →
    i < toBytes (ValidL.groupRange ⟨d.length, bs⟩ j).2 → i < d.length → Cov wl i

/-- **(i) delivered groups are verifiable and reported.**  Io-backed or in-memory outboard (any
backing), target pre-sized to the blob, `RtTrue hf d bs`.  Every chunk group all of whose byte
positions are delivered is `Verifiable` in the final store over the final target (its stored
ancestors hold their true pairs, its bytes are the blob's); hence `validRanges` reports it for
every well-formed query that touches it, provided the validator run does not end in an io error
(see `log_validator_ok`). -/
theorem log_validator_reports (hlen : ∀ h, (hf.toBytes h).length = 32)
    (hrt : RtTrue hf d bs) (hd : d.length ≤ 2 ^ 63) (hbs : bs ≤ 10) {ops : List Op}
    {sink : Sink H} {es : List (Ev H)} (h : LabelledLog hf d bs ops sink es)
    (hroot : sink.ob.root = Spec.root hf d) (htree : sink.ob.tree = ⟨d.length, bs⟩)
    (hk : sink.ob.kind ≠ .empty) (htl : sink.target.length = d.length) (fl : Flavour) (j : Nat)
    (hj : j < Tree.blocks ⟨d.length, bs⟩) (hdel : GroupDelivered d bs (FaultL.writes es) j) :
    ValidL.Verifiable hf fl (run hf ops sink).ob (run hf ops sink).target true
      (ValidL.groupRange ⟨d.length, bs⟩ j) ∧
    ∀ q, Ranges.WF q = true →
      (Tree.blocks ⟨d.length, bs⟩ = 1 ∨
        ValidL.Touched d.length q (ValidL.groupRange ⟨d.length, bs⟩ j)) →
      (validRanges hf fl (run hf ops sink).ob (run hf ops sink).target q).terminal = .ok →
      ValidL.groupRange ⟨d.length, bs⟩ j ∈
        (validRanges hf fl (run hf ops sink).ob (run hf ops sink).target q).yields := by
  obtain ⟨P, T, -, -, h4, -⟩ := log_master hlen hd hbs ops sink htree hk h.1 h.2.1 h.2.2
  have h3 := h.2.2
  obtain ⟨r1, r2, r3⟩ := run_root hf ops sink
  have htree' := r2.trans htree
  have hroot' := r1.trans hroot
  have hk' : (run hf ops sink).ob.kind ≠ .empty := by rw [r3]; exact hk
  obtain ⟨hl, hg⟩ := applyWrites_spec (FaultL.writes es) sink.target htl (log_target h).1
  rw [← (log_target h).2] at hl hg
  have hs' : (run hf ops sink).ob.tree.size ≤ 2 ^ 63 := by rw [htree']; exact hd
  have hbs' : (run hf ops sink).ob.tree.bs ≤ 10 := by rw [htree']; exact hbs
  have hex := ValidL.validRanges_exact hf fl (run hf ops sink).ob (run hf ops sink).target hs' hbs'
  have hv0 : ValidL.Verifiable hf fl (run hf ops sink).ob (run hf ops sink).target true
      (ValidL.groupRange (run hf ops sink).ob.tree j) :=
    group_verifiable hrt hd hbs h3 hk' htree' hroot' h4 hl (fun i hc => (hg i).1 hc) fl true j
      (by rw [htree']; exact hj) (by rw [htree']; exact hdel)
  have hv := hv0
  rw [htree'] at hv
  refine ⟨hv, fun q hq htouch hok => ?_⟩
  apply (hex q).complete hok
  rw [htree']
  refine ⟨hv, ?_⟩
  by_cases hb : Tree.blocks ⟨d.length, bs⟩ = 1
  · exact Or.inl hb
  · rcases htouch with h' | h'
    · exact absurd h' hb
    · have hb' : (run hf ops sink).ob.tree.blocks ≠ 1 := by rw [htree']; exact hb
      have hgrp := ValidL.Verifiable.group hb' hv0
      have := (ValidL.reach_iff_touched_top (run hf ops sink).ob.tree hs' hbs' hb' q hq _ hgrp).2
        (by rw [htree']; exact h')
      rw [htree'] at this
      exact Or.inr this

/-- **(iii) no io error after a history into a pre-sized outboard.**  If the initial backing has at
least the outboard size, no validator run on the final sink ends in an io error (so
`log_validator_reports` is unconditional). -/
theorem log_validator_ok (hd : d.length ≤ 2 ^ 63) (hbs : bs ≤ 10) {ops : List Op}
    {sink : Sink H} {es : List (Ev H)} (h : LabelledLog hf d bs ops sink es)
    (htree : sink.ob.tree = ⟨d.length, bs⟩) (hk : sink.ob.kind ≠ .empty)
    (htl : sink.target.length = d.length)
    (hfull : sink.ob.tree.outboardSize ≤ sink.ob.data.length) (fl : Flavour) (q : Ranges) :
    (validRanges hf fl (run hf ops sink).ob (run hf ops sink).target q).terminal = .ok := by
  obtain ⟨P, T, -, -⟩ := table_exists (H := H) hd hbs hk
  obtain ⟨-, r2, r3⟩ := run_root hf ops sink
  have htree' := r2.trans htree
  obtain ⟨hl, -⟩ := applyWrites_spec (FaultL.writes es) sink.target htl (log_target h).1
  rw [← (log_target h).2] at hl
  have hge := evs_len_ge (hf := hf) es sink hk
  rw [← h.1] at hge
  have hno : ValidL.NoIo hf fl (run hf ops sink).ob (run hf ops sink).target true :=
    noIo_of_full hd hbs fl T r3 htree' (by
      have : sink.ob.tree.outboardSize = P.length * 64 := by rw [htree, T.len]; rfl
      omega) _ true (fun _ => by rw [hl]; exact Nat.le_refl _)
  exact (ValidL.validRanges_exact hf fl (run hf ops sink).ob (run hf ops sink).target
    (by rw [htree']; exact hd) (by rw [htree']; exact hbs) q).ok hno

/-- **(ii) every reported group holds the blob's bytes** (any query, any state of the outboard):
`C06.reported_true_bytes` on the final sink. -/
theorem log_validator_sound (cf : CollisionFree hf) (hd : d.length ≤ 2 ^ 63) (hbs : bs ≤ 10)
    {ops : List Op} {sink : Sink H} {es : List (Ev H)} (h : LabelledLog hf d bs ops sink es)
    (hroot : sink.ob.root = Spec.root hf d) (htree : sink.ob.tree = ⟨d.length, bs⟩)
    (htl : sink.target.length = d.length) (fl : Flavour) (q : Ranges) (g : Nat × Nat)
    (hgm : g ∈ (validRanges hf fl (run hf ops sink).ob (run hf ops sink).target q).yields) :
    ((run hf ops sink).target.drop (g.1 * 1024)).take (min (g.2 * 1024) d.length - g.1 * 1024) =
      (d.drop (g.1 * 1024)).take (min (g.2 * 1024) d.length - g.1 * 1024) ∧
    g.1 * 1024 + (min (g.2 * 1024) d.length - g.1 * 1024) ≤ d.length := by
  obtain ⟨r1, r2, -⟩ := run_root hf ops sink
  have htree' := r2.trans htree
  obtain ⟨hl, -⟩ := applyWrites_spec (FaultL.writes es) sink.target htl (log_target h).1
  rw [← (log_target h).2] at hl
  have := C06.reported_true_bytes hf cf fl (run hf ops sink).ob (run hf ops sink).target d
    (by rw [htree']; exact hd) (by rw [htree']; exact hbs) (by omega) (r1.trans hroot)
    (by rw [htree', hl]; exact Nat.le_refl _) q g hgm
  rw [htree'] at this
  exact this

/-- **Exact converse, chunk by chunk.**  The literal converse "reported ⇒ all its chunks were
delivered" is false when an undelivered part of the initial target coincides with the blob
(DESIGN.md O3).  It holds under the minimal extra hypothesis that the INITIAL target differs from
the blob in at least one byte of the chunk: if `validRanges` reports `g` after a history and the
initial target differs from the blob at some position `i₀` of chunk `c ∈ g`, then every byte
position of chunk `c` has been delivered.  (No hypothesis on the outboard is needed; for the empty
chunk of the empty blob the hypothesis cannot hold.) -/
theorem log_reported_delivered (cf : CollisionFree hf) (hd : d.length ≤ 2 ^ 63)
    (hbs : bs ≤ 10) {ops : List Op} {sink : Sink H} {es : List (Ev H)}
    (h : LabelledLog hf d bs ops sink es) (hroot : sink.ob.root = Spec.root hf d)
    (htree : sink.ob.tree = ⟨d.length, bs⟩) (htl : sink.target.length = d.length) (fl : Flavour)
    (q : Ranges) (g : Nat × Nat)
    (hgm : g ∈ (validRanges hf fl (run hf ops sink).ob (run hf ops sink).target q).yields)
    (c : Nat) (hc1 : g.1 ≤ c) (hc2 : c < g.2)
    (hdiff : ∃ i₀, c * 1024 ≤ i₀ ∧ i₀ < (c + 1) * 1024 ∧ i₀ < d.length ∧
      sink.target[i₀]? ≠ d[i₀]?) :
    ∀ i, c * 1024 ≤ i → i < (c + 1) * 1024 → i < d.length → Cov (FaultL.writes es) i := by
  have h3 := h.2.2
  obtain ⟨hl, hg⟩ := applyWrites_spec (FaultL.writes es) sink.target htl (log_target h).1
  rw [← (log_target h).2] at hl hg
  obtain ⟨i₀, a1, a2, a3, a4⟩ := hdiff
  intro i b1 b2 b3
  have htb := log_validator_sound cf hd hbs h hroot htree htl fl q g hgm
  -- the final target holds the blob's byte at `i₀`
  have hi0 : (run hf ops sink).target[i₀]? = d[i₀]? := by
    have hin1 : g.1 * 1024 ≤ i₀ := by
      have := Nat.mul_le_mul_right 1024 hc1; omega
    have hin2 : i₀ < min (g.2 * 1024) d.length := by
      have := Nat.mul_le_mul_right 1024 (Nat.succ_le_of_lt hc2); omega
    have := congrArg (fun l : List UInt8 => l[i₀ - g.1 * 1024]?) htb.1
    have hlt : i₀ - g.1 * 1024 < min (g.2 * 1024) d.length - g.1 * 1024 := by omega
    simp only [List.getElem?_take, List.getElem?_drop, hlt, if_true] at this
    rw [show g.1 * 1024 + (i₀ - g.1 * 1024) = i₀ by omega] at this
    exact this
  -- hence `i₀` has been delivered
  have hcov0 : Cov (FaultL.writes es) i₀ := by
    apply Classical.byContradiction
    intro hn
    exact a4 (((hg i₀).2 hn).symm.trans hi0)
  -- by a write of a whole chunk interval containing chunk `c`
  obtain ⟨w, hw, w1, w2⟩ := hcov0
  obtain ⟨c', e', hsub, hce, hoff, hdata, -⟩ := trace_write h3 (mem_writes.1 hw)
  have hle := slice_length_le' d c' e'
  rw [← hdata] at hle
  rw [hoff] at w1 w2
  have hc'c : c' ≤ c := by
    apply Classical.byContradiction
    intro hh
    have := Nat.mul_le_mul_right 1024 (Nat.succ_le_of_lt (Nat.lt_of_not_le hh))
    omega
  have hce' : c < e' := by
    apply Classical.byContradiction
    intro hh
    have := Nat.mul_le_mul_right 1024 (Nat.le_of_not_lt hh)
    omega
  have m1 := Nat.mul_le_mul_right 1024 hc'c
  have m2 := Nat.mul_le_mul_right 1024 (Nat.succ_le_of_lt hce')
  refine ⟨w, hw, by rw [hoff]; omega, ?_⟩
  rw [hoff, hdata, C01.slice_length]
  omega

/-- **The validator reports exactly the delivered groups** (pre-sized outboard and target,
well-formed query, and — the O3 side condition — the initial target differs from the blob in at
least one byte of every chunk of the group): group `j` is reported iff the query touches it and all
its byte positions have been delivered. -/
theorem log_validator_exact (cf : CollisionFree hf) (hlen : ∀ h, (hf.toBytes h).length = 32)
    (hrt : RtTrue hf d bs) (hd : d.length ≤ 2 ^ 63) (hbs : bs ≤ 10) {ops : List Op}
    {sink : Sink H} {es : List (Ev H)} (h : LabelledLog hf d bs ops sink es)
    (hroot : sink.ob.root = Spec.root hf d) (htree : sink.ob.tree = ⟨d.length, bs⟩)
    (hk : sink.ob.kind ≠ .empty) (htl : sink.target.length = d.length)
    (hfull : sink.ob.tree.outboardSize ≤ sink.ob.data.length) (fl : Flavour) (q : Ranges)
    (hq : Ranges.WF q = true) (j : Nat) (hj : j < Tree.blocks ⟨d.length, bs⟩)
    (hdiff : ∀ c, (ValidL.groupRange ⟨d.length, bs⟩ j).1 ≤ c →
      c < (ValidL.groupRange ⟨d.length, bs⟩ j).2 →
      ∃ i₀, c * 1024 ≤ i₀ ∧ i₀ < (c + 1) * 1024 ∧ i₀ < d.length ∧ sink.target[i₀]? ≠ d[i₀]?) :
    ValidL.groupRange ⟨d.length, bs⟩ j ∈
        (validRanges hf fl (run hf ops sink).ob (run hf ops sink).target q).yields ↔
      (Tree.blocks ⟨d.length, bs⟩ = 1 ∨
        ValidL.Touched d.length q (ValidL.groupRange ⟨d.length, bs⟩ j)) ∧
      GroupDelivered d bs (FaultL.writes es) j := by
  obtain ⟨-, r2, -⟩ := run_root hf ops sink
  have htree' := r2.trans htree
  constructor
  · intro hgm
    refine ⟨?_, ?_⟩
    · have := (C06.reported_sound hf fl (run hf ops sink).ob (run hf ops sink).target
        (by rw [htree']; exact hd) (by rw [htree']; exact hbs) q hq _ hgm).2
      rw [htree'] at this
      exact this
    · intro i i1 i2 i3
      unfold toBytes at i1 i2
      exact log_reported_delivered cf hd hbs h hroot htree htl fl q _ hgm (i / 1024)
        (by omega) (by omega) (hdiff _ (by omega) (by omega)) i (by omega) (by omega) i3
  · rintro ⟨ht, hdel⟩
    exact (log_validator_reports hlen hrt hd hbs h hroot htree hk htl fl j hj hdel).2 q hq ht
      (log_validator_ok hd hbs h htree hk htl hfull fl q)

/-- the same with the delivered list existentially quantified.  `_partial`: relative to the literal
sentence of C07 ("reports exactly the chunk groups all of whose chunks have been delivered") this
needs the O3 side condition `hdiff` on the initial target (without it the sentence is false), a
pre-sized outboard, a well-formed query, and `RtTrue`. -/
theorem validator_exact_partial (cf : CollisionFree hf) (hlen : ∀ h, (hf.toBytes h).length = 32)
    (hrt : RtTrue hf d bs) (hd : d.length ≤ 2 ^ 63) (hbs : bs ≤ 10) (ops : List Op) (sink : Sink H)
    (hroot : sink.ob.root = Spec.root hf d) (htree : sink.ob.tree = ⟨d.length, bs⟩)
    (hk : sink.ob.kind ≠ .empty) (htl : sink.target.length = d.length)
    (hfull : sink.ob.tree.outboardSize ≤ sink.ob.data.length) (fl : Flavour) (q : Ranges)
    (hq : Ranges.WF q = true) :
    ∃ wl : List (Nat × List UInt8),
      (∀ w ∈ wl, TrueLeaf d w.1 w.2) ∧
      (run hf ops sink).target = applyWrites sink.target wl ∧
      ∀ j, j < Tree.blocks ⟨d.length, bs⟩ →
        (∀ c, (ValidL.groupRange ⟨d.length, bs⟩ j).1 ≤ c →
          c < (ValidL.groupRange ⟨d.length, bs⟩ j).2 →
          ∃ i₀, c * 1024 ≤ i₀ ∧ i₀ < (c + 1) * 1024 ∧ i₀ < d.length ∧
            sink.target[i₀]? ≠ d[i₀]?) →
        (ValidL.groupRange ⟨d.length, bs⟩ j ∈
            (validRanges hf fl (run hf ops sink).ob (run hf ops sink).target q).yields ↔
          (Tree.blocks ⟨d.length, bs⟩ = 1 ∨
            ValidL.Touched d.length q (ValidL.groupRange ⟨d.length, bs⟩ j)) ∧
          GroupDelivered d bs wl j) := by
  obtain ⟨es, h⟩ := history_log (bs := bs) cf hd ops sink hroot htree
  exact ⟨_, (log_target h).1, (log_target h).2, fun j hj hdiff =>
    log_validator_exact cf hlen hrt hd hbs h hroot htree hk htl hfull fl q hq j hj hdiff⟩

/-- **Stage D: the validator after any history**, with the delivered list existentially quantified
as in `C07.inv`.  True root, true geometry, io-backed or in-memory outboard (any backing), target
pre-sized to the blob, `RtTrue hf d bs`.  With `fin = run hf ops sink`:
(i) every chunk group all of whose byte positions are delivered is `Verifiable` in `fin`, and
    `validRanges` reports it for every well-formed query that touches it unless the validator run
    ends in an io error;
(ii) every group `validRanges` reports holds the blob's bytes and lies inside the blob; if moreover
    the initial target differs from the blob in some byte of a chunk of a reported group, every byte
    position of that chunk has been delivered;
(iii) if the outboard was pre-sized, no validator run on `fin` ends in an io error. -/
theorem validator_after_history (cf : CollisionFree hf) (hlen : ∀ h, (hf.toBytes h).length = 32)
    (hrt : RtTrue hf d bs) (hd : d.length ≤ 2 ^ 63) (hbs : bs ≤ 10) (ops : List Op) (sink : Sink H)
    (hroot : sink.ob.root = Spec.root hf d) (htree : sink.ob.tree = ⟨d.length, bs⟩)
    (hk : sink.ob.kind ≠ .empty) (htl : sink.target.length = d.length) (fl : Flavour) :
    ∃ wl : List (Nat × List UInt8),
      (∀ w ∈ wl, TrueLeaf d w.1 w.2) ∧
      (run hf ops sink).target = applyWrites sink.target wl ∧
      (∀ j, j < Tree.blocks ⟨d.length, bs⟩ → GroupDelivered d bs wl j →
        ValidL.Verifiable hf fl (run hf ops sink).ob (run hf ops sink).target true
          (ValidL.groupRange ⟨d.length, bs⟩ j) ∧
        ∀ q, Ranges.WF q = true →
          (Tree.blocks ⟨d.length, bs⟩ = 1 ∨
            ValidL.Touched d.length q (ValidL.groupRange ⟨d.length, bs⟩ j)) →
          (validRanges hf fl (run hf ops sink).ob (run hf ops sink).target q).terminal = .ok →
          ValidL.groupRange ⟨d.length, bs⟩ j ∈
            (validRanges hf fl (run hf ops sink).ob (run hf ops sink).target q).yields) ∧
      (∀ q g, g ∈ (validRanges hf fl (run hf ops sink).ob (run hf ops sink).target q).yields →
        (((run hf ops sink).target.drop (g.1 * 1024)).take
            (min (g.2 * 1024) d.length - g.1 * 1024) =
          (d.drop (g.1 * 1024)).take (min (g.2 * 1024) d.length - g.1 * 1024) ∧
        g.1 * 1024 + (min (g.2 * 1024) d.length - g.1 * 1024) ≤ d.length) ∧
        ∀ c, g.1 ≤ c → c < g.2 →
          (∃ i₀, c * 1024 ≤ i₀ ∧ i₀ < (c + 1) * 1024 ∧ i₀ < d.length ∧
            sink.target[i₀]? ≠ d[i₀]?) →
          ∀ i, c * 1024 ≤ i → i < (c + 1) * 1024 → i < d.length → Cov wl i) ∧
      (sink.ob.tree.outboardSize ≤ sink.ob.data.length → ∀ q,
        (validRanges hf fl (run hf ops sink).ob (run hf ops sink).target q).terminal = .ok) := by
  obtain ⟨es, h⟩ := history_log (bs := bs) cf hd ops sink hroot htree
  exact ⟨_, (log_target h).1, (log_target h).2,
    fun j hj hdel => log_validator_reports hlen hrt hd hbs h hroot htree hk htl fl j hj hdel,
    fun q g hgm => ⟨log_validator_sound cf hd hbs h hroot htree htl fl q g hgm,
      fun c c1 c2 hdf => log_reported_delivered cf hd hbs h hroot htree htl fl q g hgm c c1 c2
        hdf⟩,
    fun hfull q => log_validator_ok hd hbs h htree hk htl hfull fl q⟩

/-! ## non-vacuity -/

section examples

/-- a collision free hash with a 32-byte representation (`CollisionFree` and `hlen` together) -/
def h32 : HashFns Term := { termHash with toBytes := fun _ => List.replicate 32 0 }

theorem h32_cf : CollisionFree h32 := by
  intro x y h
  cases x <;> cases y <;> simp only [HashFns.eval, h32, termHash] at h <;> first
    | (injection h with h1 h2 h3; subst h1 h2 h3; rfl)
    | (injection h)

theorem h32_len : ∀ h, (h32.toBytes h).length = 32 := fun _ => List.length_replicate ..

/-- 2500 bytes: three chunks; at `bs = 1` two chunk groups and one persisted node -/
def blob3 : List UInt8 := List.replicate 2500 7
def tampered3 : List UInt8 := List.replicate 64 1 ++ List.replicate 2500 8

theorem blob3_le : blob3.length ≤ 2 ^ 63 := by
  simp only [blob3, List.length_replicate]; omega

/-- pre-sized target, pre-sized post-order memory outboard, true root, true geometry -/
def sink3 : Sink Term :=
  { ob := { kind := .postMem, root := Spec.root h32 blob3, tree := ⟨2500, 1⟩,
            data := List.replicate 64 0 },
    target := List.replicate 2500 0 }

theorem sink3_tree : sink3.ob.tree = ⟨blob3.length, 1⟩ := by
  simp only [sink3, blob3, List.length_replicate]

theorem sink3_root : sink3.ob.root = Spec.root h32 blob3 := by simp only [sink3]

theorem sink3_len : sink3.target.length = blob3.length := by
  simp only [sink3, blob3, List.length_replicate]

/-- a tampered stream with the first write failing, a truncated stream, an overlapping query on
the other flavour with the first save failing -/
def hist3 : List Op :=
  [⟨.sync, tampered3, [0], some 0, none⟩, ⟨.fsm, [], [1, 2], none, none⟩,
   ⟨.fsm, tampered3, [0, 2], none, some 0⟩]

example := saved_pairs_labelled (d := blob3) (bs := 1) h32_cf blob3_le hist3 sink3 sink3_root sink3_tree

example := ancestors_saved_before_leaf (d := blob3) (bs := 1) h32_cf blob3_le .sync tampered3 [0]
  sink3 (some 1) none sink3_root sink3_tree

example := ancestors_hold (d := blob3) (bs := 1) h32_cf h32_len blob3_le (by decide) hist3 sink3
  sink3_root sink3_tree (by simp [sink3])

example := converges_outboard (d := blob3) (bs := 1) h32_cf h32_len blob3_le (by decide) hist3
  sink3 sink3_root sink3_tree (by simp [sink3]) (by decide)

/-- a collision free hash with a 32-byte representation whose `ofBytes` / `toBytes` round-trip on
the two hashes of the true pair of the two-chunk blob `blob2` -/
def rtHash : HashFns Term where
  chunkCv := Term.chunk
  parentCv := Term.parent
  ofBytes := fun b =>
    if b = List.replicate 32 1 then Term.chunk 0 (List.replicate 1024 7) false
    else if b = List.replicate 32 2 then Term.chunk 1 [7] false
    else Term.raw b
  toBytes := fun h =>
    match h with
    | .chunk 0 _ false => List.replicate 32 1
    | .chunk 1 _ false => List.replicate 32 2
    | _ => List.replicate 32 0

theorem rtHash_cf : CollisionFree rtHash := by
  intro x y h
  cases x <;> cases y <;> simp only [HashFns.eval, rtHash] at h <;> first
    | (injection h with h1 h2 h3; subst h1 h2 h3; rfl)
    | (injection h)

theorem rtHash_len : ∀ h, (rtHash.toBytes h).length = 32 := by
  intro h
  simp only [rtHash]
  split <;> exact List.length_replicate ..

/-- 1025 bytes: two chunks; at `bs = 0` two chunk groups and one persisted node -/
def blob2 : List UInt8 := List.replicate 1025 7

theorem blob2_le : blob2.length ≤ 2 ^ 63 := by
  simp only [blob2, List.length_replicate]; omega

set_option maxRecDepth 100000 in
theorem rtHash_rt : RtTrue rtHash blob2 0 := by
  intro k L _ h
  have hn : nChunks blob2.length = 2 := by decide
  rw [hn] at h
  have e : midOf k L = k * 2 ^ (L + 1) + 2 ^ L := rfl
  have hp := Nat.two_pow_pos L
  have hL : L = 0 := by
    cases L with
    | zero => rfl
    | succ L => rw [e, Nat.pow_succ 2 L] at h; omega
  subst hL
  have hk : k = 0 := by rw [e] at h; omega
  subst hk
  decide

def sink2 : Sink Term :=
  { ob := { kind := .preIo, root := Spec.root rtHash blob2, tree := ⟨1025, 0⟩,
            data := List.replicate 64 0 },
    target := List.replicate 1025 0 }

theorem sink2_tree : sink2.ob.tree = ⟨blob2.length, 0⟩ := by
  simp only [sink2, blob2, List.length_replicate]

theorem sink2_root : sink2.ob.root = Spec.root rtHash blob2 := by simp only [sink2]

theorem sink2_len : sink2.target.length = blob2.length := by
  simp only [sink2, blob2, List.length_replicate]

example := validator_after_history (d := blob2) (bs := 0) rtHash_cf rtHash_len rtHash_rt blob2_le
  (by decide) [⟨.sync, tampered3, [0], some 0, none⟩, ⟨.fsm, [], [1, 2], none, none⟩] sink2 sink2_root
  sink2_tree (by simp [sink2]) sink2_len .sync

example := validator_exact_partial (d := blob2) (bs := 0) rtHash_cf rtHash_len rtHash_rt blob2_le
  (by decide) [⟨.sync, tampered3, [0], some 0, none⟩, ⟨.fsm, [], [1, 2], none, none⟩] sink2 sink2_root
  sink2_tree (by simp [sink2]) sink2_len (by decide) .sync [0] (by decide)

/-- an honest, uninterrupted, complete download of `blob2` -/
def honest2 : List Op := [⟨.sync, Spec.encode rtHash blob2 0 [0], [0], none, none⟩]

set_option maxRecDepth 100000 in
theorem honest2_target : (run rtHash honest2 sink2).target = blob2 := by decide +kernel

theorem blob2_diff (i : Nat) (hi : i < blob2.length) : sink2.target[i]? ≠ blob2[i]? := by
  simp only [blob2, List.length_replicate] at hi
  show (List.replicate 1025 (0 : UInt8))[i]? ≠ (List.replicate 1025 (7 : UInt8))[i]?
  rw [List.getElem?_replicate, List.getElem?_replicate]
  simp only [hi, if_true]
  decide

/-- … delivers every byte position (the initial target is all zeros, the blob all sevens) -/
theorem honest2_all {es : List (Ev Term)} (h : LabelledLog rtHash blob2 0 honest2 sink2 es) :
    ∀ i, i < blob2.length → Cov (FaultL.writes es) i := by
  intro i hi
  apply Classical.byContradiction
  intro hn
  obtain ⟨-, hg⟩ := applyWrites_spec (FaultL.writes es) sink2.target sink2_len (log_target h).1
  rw [← (log_target h).2, honest2_target] at hg
  exact blob2_diff i hi ((hg i).2 hn).symm

/-- after the complete download the validator reports both chunk groups (`log_validator_exact`,
right to left: its hypotheses, and those of `log_validator_reports` / `log_validator_ok`, are
jointly satisfiable) -/
theorem honest2_reported {es : List (Ev Term)} (h : LabelledLog rtHash blob2 0 honest2 sink2 es)
    (j : Nat) (hj : j < 2) :
    ValidL.groupRange ⟨blob2.length, 0⟩ j = (j, j + 1) ∧
    ValidL.groupRange ⟨blob2.length, 0⟩ j ∈
      (validRanges rtHash .sync (run rtHash honest2 sink2).ob (run rtHash honest2 sink2).target
        [0]).yields := by
  have hall := honest2_all h
  have hlen : blob2.length = 1025 := by simp only [blob2, List.length_replicate]
  have hg : ValidL.groupRange ⟨blob2.length, 0⟩ j = (j, j + 1) := by
    rw [hlen]
    simp only [ValidL.groupRange, chunksOf, Nat.pow_zero, Nat.mul_one]
    have : min (j + 1) (1025 / 1024 + if 1025 % 1024 ≠ 0 then 1 else 0) = j + 1 := by
      have : (1025 / 1024 + if 1025 % 1024 ≠ 0 then 1 else 0) = 2 := by decide
      omega
    rw [this]
  refine ⟨hg, (log_validator_exact rtHash_cf rtHash_len rtHash_rt blob2_le (by decide) h sink2_root
    sink2_tree (by simp [sink2]) sink2_len (by decide) .sync [0] (by decide) j
    (by rw [hlen]; have : Tree.blocks ⟨1025, 0⟩ = 2 := by decide
        omega) ?_).2 ⟨.inr ⟨j, ?_, ?_, ?_⟩, fun i _ _ hi => hall i hi⟩⟩
  · intro c hc1 hc2
    rw [hg] at hc1 hc2
    simp only at hc1 hc2
    exact ⟨c * 1024, Nat.le_refl _, by omega, by omega, blob2_diff _ (by omega)⟩
  · rw [hg]; exact Nat.le_refl _
  · rw [hg]; exact Nat.lt_succ_self _
  · rw [hlen]
    have : j = 0 ∨ j = 1 := by omega
    rcases this with rfl | rfl <;> decide

/-- `log_converges`, `log_validator_exact` (hence `log_validator_reports`, `log_validator_ok`):
after the complete honest download the outboard IS the pre-order outboard of the blob, the target
is the blob, and the validator reports both chunk groups -/
example : ∃ es, LabelledLog rtHash blob2 0 honest2 sink2 es ∧
    (∀ i, i < blob2.length → Cov (FaultL.writes es) i) ∧
    (run rtHash honest2 sink2).ob.data = Spec.preOutboard rtHash blob2 0 ∧
    (run rtHash honest2 sink2).target = blob2 ∧
    ∀ j, j < 2 → ValidL.groupRange ⟨blob2.length, 0⟩ j ∈
      (validRanges rtHash .sync (run rtHash honest2 sink2).ob (run rtHash honest2 sink2).target
        [0]).yields := by
  obtain ⟨es, h⟩ := history_log (bs := 0) rtHash_cf blob2_le honest2 sink2 sink2_root sink2_tree
  have hall := honest2_all h
  have hconv := log_converges rtHash_len blob2_le (by decide) h sink2_tree (by simp [sink2])
    (by decide) hall
  exact ⟨es, h, hall, hconv.1 (.inl rfl), hconv.2.2 sink2_len,
    fun j hj => (honest2_reported h j hj).2⟩

/-- `log_validator_sound`, `log_reported_delivered`, `log_validator_exact` (left to right) on
the reported second group of the complete download -/
example : ∃ es, LabelledLog rtHash blob2 0 honest2 sink2 es ∧
    (∀ i, 1 * 1024 ≤ i → i < (1 + 1) * 1024 → i < blob2.length → Cov (FaultL.writes es) i) := by
  obtain ⟨es, h⟩ := history_log (bs := 0) rtHash_cf blob2_le honest2 sink2 sink2_root sink2_tree
  obtain ⟨hg, hrep⟩ := honest2_reported h 1 (by decide)
  have hlen : blob2.length = 1025 := by simp only [blob2, List.length_replicate]
  have _hs := log_validator_sound rtHash_cf blob2_le (by decide) h sink2_root sink2_tree sink2_len
    .sync [0] _ hrep
  exact ⟨es, h, log_reported_delivered rtHash_cf blob2_le (by decide) h sink2_root sink2_tree
    sink2_len .sync [0] _ hrep 1 (by rw [hg]; exact Nat.le_refl _) (by rw [hg]; decide)
    ⟨1024, by decide, by decide, by rw [hlen]; decide, blob2_diff _ (by rw [hlen]; decide)⟩⟩

/-- `log_order`, `log_target`, `log_saves`, `log_ancestors_hold` on a log of the faulty history -/
example : True := by
  obtain ⟨es, h⟩ := history_log (bs := 1) h32_cf blob3_le hist3 sink3 sink3_root sink3_tree
  have _h1 := log_order h
  have _h2 := log_target h
  have _h3 := log_saves h
  have _h4 := log_ancestors_hold h32_len blob3_le (by decide) h sink3_tree (by simp [sink3])
  trivial

end examples

/-
## Status (C07, second half)

All theorems: axioms ⊆ {propext, Classical.choice, Quot.sound}.  Histories are arbitrary lists of
fault-injected `decodeRangesF` calls with ARBITRARY streams (honest, truncated, tampered), either
flavour, any queries; "after every step" is the instance at each prefix of `ops`.
Standing hypotheses: `CollisionFree hf`, `sink.ob.root = Spec.root hf d`,
`sink.ob.tree = ⟨d.length, bs⟩` (true geometry), `d.length ≤ 2^63`.

PROVED
* `history_log`  – every history has a labelled log `es` (`LabelledLog`): final sink = initial sink
                   after the completed calls `es`, all successful; position by position (`log_order`)
                   every save writes the TRUE pair of an existing node of level `≥ bs` UNDER ITS OWN
                   LABEL, every write writes a true leaf all of whose existing ancestors of level
                   `≥ bs` were saved earlier in `es`.  `log_target`: `FaultL.writes es` is a delivered
                   list in the sense of `C07.inv`.  `log_saves` / `saved_pairs_labelled` (Stage A):
                   outboard = initial outboard after successful, labelled saves of true pairs.
* `ancestors_saved_before_leaf` (Stage B) – the same for ONE call: each leaf write comes after the
                   successful saves of all persisted ancestors of its chunks in the same call.
* `log_ancestors_hold` / `ancestors_hold` (Stage B, consequence; needs `hlen`, `bs ≤ 10`, kind ≠
                   empty; ANY backing) – for every delivered byte position the slot of every
                   persisted ancestor of its chunk `Holds` the true pair at the end.
* `log_converges` / `converges_outboard` (Stage C; backing not longer than the outboard size) – all
                   byte positions delivered ⇒ backing = `Spec.preOutboard hf d bs` (pre-order kinds)
                   / `Spec.postOutboard hf d bs` (post-order kinds), and target = blob.
* `log_validator_reports`, `log_validator_ok`, `log_validator_sound`, `log_reported_delivered`,
  `log_validator_exact`, packaged as `validator_after_history` (Stage D; target pre-sized, needs
                   `RtTrue hf d bs`): (i) a completely delivered group is `Verifiable` and reported for
                   every well-formed query touching it (unconditionally if the outboard was pre-sized:
                   (iii) no io error); (ii) every reported group holds the blob's bytes; a reported
                   group's chunk in which the INITIAL target differed from the blob has been
                   delivered; hence, if the initial target differs from the blob in some byte of every
                   chunk of a group: reported ⇔ touched ∧ completely delivered.

PARTIAL
* `validator_exact_partial` – "the validator reports exactly the delivered groups": proved as an
                   IFF, but only under the O3 side condition (`hdiff`: the initial target differs from
                   the blob in at least one byte of every chunk of the group) — without it the literal
                   sentence is false: a zero-initialised target already "holds" an all-zero chunk, and
                   `validRanges` reports its group as soon as the ancestors are stored — plus
                   pre-sized outboard, well-formed query, `RtTrue`.

OPEN: nothing of the C07 sentence, for stores of the four non-empty kinds.  Not treated: the
`EmptyOutboard` (nothing is stored, `Holds`/convergence are meaningless there; `history_log`,
Stage A and Stage B's order statement DO cover it).

Remarks
* `RtTrue hf d bs` instead of the global round trip `∀ h, ofBytes (toBytes h) = h`: the global one is
  inconsistent with `CollisionFree hf` + 32-byte hashes (`Lemmas/CFUnsat.lean`), which would make
  Stage D vacuous; the round trip on the hashes of the true tree is what the validator needs and is
  satisfiable together with the other two (`rtHash`, `rtHash_rt`).
* The delivered list is `FaultL.writes es` for a labelled log `es`; the `log_*` theorems share `es`,
  the unprefixed ones quantify it existentially like `C07.inv`.
* Model: nothing suspicious found.  `Store.save` of the io kinds silently ignores a node without
  slot (`.ok s`); under the true geometry every relevant existing node has a slot, so this branch is
  not reached by the labelled saves.  The sync flavour skips the write of an empty leaf; an empty
  leaf covers no byte position, so `Cov` is not affected.
-/

end Bao.C07
