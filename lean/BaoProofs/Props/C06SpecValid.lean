import BaoProofs.Lemmas.SpecValidL

/-!
# The executable specification verdict of `valid` never rejects the model (C06)

`Ops.opValid` (`valid flavour store blob bs ranges corruption data|ob`) prints the result of the
model's validator (`validRanges` / `validOutboardRanges`) on the intact store of the blob with the
listed corruptions applied, and judges the implementation's output with a verdict that walks the
tree over block intervals with the real hash and the specification's slot (`Ops.verifiableBlock`,
`Ops.specLoad`: traversal index `Spec.preIndex` / `Spec.postIndex`) and compares with
"verifiable and touched" (`want`).

This file proves: for every store content (intact or corrupted – no hypothesis on the hash) and
every state of the data file (altered bytes, zeroed regions, cut by `Td<len>`), on the model's own
output the verdict is `none` (`valid_specFail`).  The case of a data file that ends early is not
covered by the C06 theorems (their exactness half assumes `NoIo ∋ size ≤ data.length`); it is
treated separately in `Lemmas/SpecValidL.lean` sections J–M (`rec_end`, `run_short`) and summarised
here in `short_component`.
-/

set_option maxRecDepth 100000

namespace Bao.SpecValid
open Bao Bao.Ops Bao.Proto Bao.ValidL Bao.SpecIndex

/-! ## 1. component level -/

/-- the specification's slot lookup is the model's `load` on every persisted node (level `≥ bs`,
mid inside the blob), for all five store kinds, both flavours, a backing of the outboard size -/
theorem load_component (fl : Flavour) (kind : StoreKind) (root : HB) (size bs k M : Nat)
    (backing : List UInt8) (hs : size ≤ 2 ^ 63) (hbs : bs ≤ 10) (hM : bs ≤ M)
    (hm : Spec.midOf k M < Spec.nChunks size)
    (hdl : backing.length = Tree.outboardSize ⟨size, bs⟩) :
    ∃ p, specLoad kind size bs backing (Spec.nodeOf k M) = some p ∧
      Store.load hf fl (⟨kind, root, ⟨size, bs⟩, backing⟩ : Store HB) (Spec.nodeOf k M)
        = .ok (some p) :=
  load_specLoad fl kind root size bs k M backing hs hbs hM hm hdl

example : (5000 : Nat) ≤ 2 ^ 63 ∧ (0 : Nat) ≤ 10 ∧ (0 : Nat) ≤ 1 ∧
    Spec.midOf 0 1 < Spec.nChunks 5000 ∧
    (List.replicate 256 (7 : UInt8)).length = Tree.outboardSize ⟨5000, 0⟩ := by decide

/-- `Verifiable` of C06 (any store content) is the verdict's `verifiableBlock` for some chunk
group: the clause "verifiable" of `want` -/
theorem verifiable_component (fl : Flavour) (kind : StoreKind) (root : HB) (size bs : Nat)
    (data backing : List UInt8) (wd : Bool) (hs : size ≤ 2 ^ 63) (hbs : bs ≤ 10)
    (hdl : backing.length = Tree.outboardSize ⟨size, bs⟩) (hd : data.length ≤ size)
    (g : Nat × Nat) :
    Verifiable hf fl (⟨kind, root, ⟨size, bs⟩, backing⟩ : Store HB) data wd g ↔
      ∃ i, i < Tree.blocks ⟨size, bs⟩ ∧ g = groupRange ⟨size, bs⟩ i ∧
        verifiableBlock kind size bs data backing wd i (Spec.log2ceil 64 (Spec.nBlocks size bs)) 0
          root true = true :=
  verifiable_iff fl kind root size bs data backing wd hs hbs hdl hd g

example : (5000 : Nat) ≤ 2 ^ 63 ∧ (0 : Nat) ≤ 10 ∧
    (List.replicate 256 (7 : UInt8)).length = Tree.outboardSize ⟨5000, 0⟩ ∧
    (List.replicate 5000 (1 : UInt8)).length ≤ 5000 := by decide

/-- the clause "touched" of `want` is C06's `blocks = 1 ∨ Touched` -/
theorem touched_component (size bs : Nat) (q : List Nat) (i : Nat)
    (hi : i < Tree.blocks ⟨size, bs⟩) :
    touchedB size bs q i = true ↔
      (Tree.blocks ⟨size, bs⟩ = 1 ∨ Touched size q (groupRange ⟨size, bs⟩ i)) :=
  touchedB_iff size bs q i hi

example : (3 : Nat) < Tree.blocks ⟨5000, 0⟩ := by decide

/-- the members of `want`: the verifiable groups the query touches -/
theorem want_component (fl : Flavour) (kind : StoreKind) (root : HB) (size bs : Nat) (q : List Nat)
    (data backing : List UInt8) (wd : Bool) (hs : size ≤ 2 ^ 63) (hbs : bs ≤ 10)
    (hdl : backing.length = Tree.outboardSize ⟨size, bs⟩) (hd : data.length ≤ size)
    (g : Nat × Nat) :
    g ∈ wantList kind size bs q data backing root wd ↔
      Verifiable hf fl (⟨kind, root, ⟨size, bs⟩, backing⟩ : Store HB) data wd g ∧
        (Tree.blocks ⟨size, bs⟩ = 1 ∨ Touched size q g) :=
  mem_want_iff fl kind root size bs q data backing wd hs hbs hdl hd g

/-- no io error is possible on a store whose backing has the outboard size (all five kinds, both
flavours) when the data file is as long as the blob -/
theorem noio_component (fl : Flavour) (kind : StoreKind) (root : HB) (size bs : Nat)
    (data backing : List UInt8) (wd : Bool) (hs : size ≤ 2 ^ 63) (hbs : bs ≤ 10)
    (hdl : backing.length = Tree.outboardSize ⟨size, bs⟩) (hd : wd = true → size ≤ data.length) :
    NoIo hf fl (⟨kind, root, ⟨size, bs⟩, backing⟩ : Store HB) data wd :=
  noIo_full fl kind root size bs data backing wd hs hbs hdl hd

/-- the corruptions of the driver keep the length of the outboard and never lengthen the data -/
theorem corruption_component (spec : String) (d ob root d' ob' root' : List UInt8)
    (h : applyCorruptionExt spec d ob root = some (d', ob', root')) :
    d'.length ≤ d.length ∧ ob'.length = ob.length :=
  applyCorruptionExt_len spec d ob root d' ob' root' h

-- `#eval applyCorruptionExt "d1^255,o0^1,r3^7,Zo1:2,Td2" [1, 2, 3] [4, 5, 6] (List.replicate 32 0)`
-- gives `some ([1, 253], [5, 0, 0], (List.replicate 32 0).set 3 7)`; `String.splitOn` does not reduce
-- under `decide`, so the instance proved here is the empty corruption
example : applyCorruptionExt "-" [1, 2, 3] [4, 5, 6] (List.replicate 32 0)
    = some ([1, 2, 3], [4, 5, 6], List.replicate 32 0) := rfl

/-- COMPONENT LEVEL SUMMARY: the model's run is `⟨want, ok⟩`: what the validator reports is the
list the verdict computes, in the same order, and it ends without error -/
theorem run_component (fl : Flavour) (kind : StoreKind) (d : List UInt8) (bs : Nat) (q : List Nat)
    (d' ob' root' : List UInt8) (wd : Bool) (hs : d.length ≤ 2 ^ 63) (hbs : bs ≤ 10)
    (hq : Ranges.WF q = true) (hdl : ob'.length = Tree.outboardSize ⟨d.length, bs⟩)
    (hd1 : d'.length ≤ d.length) (hd2 : wd = true → d.length ≤ d'.length) :
    validRun fl kind d bs q d' ob' root' wd
      = ⟨wantList kind d.length bs q d' ob' root' wd, .ok⟩ :=
  run_eq_want fl kind d bs q d' ob' root' wd hs hbs hq hdl hd1 hd2

/-- a store with ARBITRARY contents (backing `9 9 9 …`, root `5 5 5 …`, data `1 1 1 …` over the blob
`7 7 7 …` of 3000 bytes, three chunk groups at `bs = 0`): the hypotheses are met -/
example : (List.replicate 3000 (7 : UInt8)).length ≤ 2 ^ 63 ∧ (0 : Nat) ≤ 10 ∧
    Ranges.WF [1, 2] = true ∧
    (List.replicate 128 (9 : UInt8)).length
      = Tree.outboardSize ⟨(List.replicate 3000 (7 : UInt8)).length, 0⟩ ∧
    (List.replicate 3000 (1 : UInt8)).length ≤ (List.replicate 3000 (7 : UInt8)).length ∧
    (true = true → (List.replicate 3000 (7 : UInt8)).length
      ≤ (List.replicate 3000 (1 : UInt8)).length) := by
  simp only [List.length_replicate]; decide

/-! ## 2. op level -/

/-- the part that follows from the C06 theorems alone (`reported_iff`, `reported_iff_outboard`):
`(opValid args (opValid args impl).model).specFail = none` for all arguments that parse,
`size ≤ 2^63`, `bs ≤ 10`, a well-formed query, and – for the data validator – a data file that is
not cut (`d.length ≤ d'.length`); every corruption of data bytes, outboard bytes and root -/
theorem valid_specFail_uncut (a b c e f g m impl : String) (fl : Flavour) (kind : StoreKind)
    (d : List UInt8) (bs : Nat) (ranges : List Nat) (d' ob' root' : List UInt8)
    (h1 : flavour? a = some fl) (h2 : storeKind? b = some kind) (h3 : blob c = some d)
    (h4 : e.toNat? = some bs) (h5 : parseNatList f = some ranges)
    (h6 : applyCorruptionExt g d (intactStore kind d bs).data (intactStore kind d bs).root
      = some (d', ob', root'))
    (hs : d.length ≤ 2 ^ 63) (hbs : bs ≤ 10) (hq : Ranges.WF ranges = true)
    (hlen : m = "data" → d.length ≤ d'.length) :
    (opValid [a, b, c, e, f, g, m] (opValid [a, b, c, e, f, g, m] impl).model).specFail = none := by
  obtain ⟨hd1, hob⟩ := applyCorruptionExt_len g d _ _ d' ob' root' h6
  have hdl : ob'.length = Tree.outboardSize ⟨d.length, bs⟩ := by
    rw [hob, intactStore_data_length kind d bs hs hbs]
  have hd2 : (m == "data") = true → d.length ≤ d'.length := fun h => hlen (by simpa using h)
  rw [opValid_eq a b c e f g m impl fl kind d bs ranges d' ob' root' h1 h2 h3 h4 h5 h6,
    opValid_eq a b c e f g m _ fl kind d bs ranges d' ob' root' h1 h2 h3 h4 h5 h6]
  simp only
  rw [run_eq_want fl kind d bs ranges d' ob' root' _ hs hbs hq hdl hd1 hd2,
    shortGroups_nil d.length bs ranges d' _ hd2]
  exact verdict_want _ bs d'

/-- the data validator on a data file that may end early: every reported group is in `want`; the
run ends `ok` with all of `want` reported, or with `UnexpectedEof` at a touched group `i` whose
bytes are not all there (`i ∈ shortGroups`), everything of `want` in front of it reported -/
theorem short_component (fl : Flavour) (kind : StoreKind) (d : List UInt8) (bs : Nat) (q : List Nat)
    (d' ob' root' : List UInt8) (hs : d.length ≤ 2 ^ 63) (hbs : bs ≤ 10)
    (hq : Ranges.WF q = true) (hdl : ob'.length = Tree.outboardSize ⟨d.length, bs⟩)
    (hd1 : d'.length ≤ d.length) :
    (∀ g ∈ (validRun fl kind d bs q d' ob' root' true).yields,
      g ∈ wantList kind d.length bs q d' ob' root' true) ∧
    (validRun fl kind d bs q d' ob' root' true).yields.Pairwise (fun a b => a.1 < b.1) ∧
    (((validRun fl kind d bs q d' ob' root' true).terminal = .ok ∧
        ∀ g ∈ wantList kind d.length bs q d' ob' root' true,
          g ∈ (validRun fl kind d bs q d' ob' root' true).yields) ∨
      ((validRun fl kind d bs q d' ob' root' true).terminal = .err eofErr ∧
        ∃ i, i ∈ shortGroups d.length bs q d' true ∧
          ∀ g ∈ wantList kind d.length bs q d' ob' root' true, g.1 < i * 2 ^ bs →
            g ∈ (validRun fl kind d bs q d' ob' root' true).yields)) :=
  run_short fl kind d bs q d' ob' root' hs hbs hq hdl hd1

/-- the data file of 3000 bytes cut to 2000 bytes: the hypotheses are met -/
example : (List.replicate 3000 (7 : UInt8)).length ≤ 2 ^ 63 ∧ (0 : Nat) ≤ 10 ∧
    Ranges.WF [0] = true ∧
    (List.replicate 128 (9 : UInt8)).length
      = Tree.outboardSize ⟨(List.replicate 3000 (7 : UInt8)).length, 0⟩ ∧
    (List.replicate 2000 (7 : UInt8)).length ≤ (List.replicate 3000 (7 : UInt8)).length := by
  simp only [List.length_replicate]; decide

/-- when no touched group has missing bytes the run is `⟨want, ok⟩` (the file may be cut behind
the touched groups) -/
theorem no_short_component (fl : Flavour) (kind : StoreKind) (d : List UInt8) (bs : Nat)
    (q : List Nat) (d' ob' root' : List UInt8) (hs : d.length ≤ 2 ^ 63) (hbs : bs ≤ 10)
    (hq : Ranges.WF q = true) (hdl : ob'.length = Tree.outboardSize ⟨d.length, bs⟩)
    (hd1 : d'.length ≤ d.length) (hsg : shortGroups d.length bs q d' true = []) :
    validRun fl kind d bs q d' ob' root' true
      = ⟨wantList kind d.length bs q d' ob' root' true, .ok⟩ :=
  run_eq_want_of_no_short fl kind d bs q d' ob' root' hs hbs hq hdl hd1 hsg

/-- THE OP-LEVEL THEOREM: `(opValid args (opValid args impl).model).specFail = none` for all
arguments that parse, `size ≤ 2^63`, `bs ≤ 10`, a well-formed query: every flavour, store kind,
mode, and every corruption the driver knows (data bytes, outboard bytes, root, zeroed regions, a
data file that ends early) -/
theorem valid_specFail (a b c e f g m impl : String) (fl : Flavour) (kind : StoreKind)
    (d : List UInt8) (bs : Nat) (ranges : List Nat) (d' ob' root' : List UInt8)
    (h1 : flavour? a = some fl) (h2 : storeKind? b = some kind) (h3 : blob c = some d)
    (h4 : e.toNat? = some bs) (h5 : parseNatList f = some ranges)
    (h6 : applyCorruptionExt g d (intactStore kind d bs).data (intactStore kind d bs).root
      = some (d', ob', root'))
    (hs : d.length ≤ 2 ^ 63) (hbs : bs ≤ 10) (hq : Ranges.WF ranges = true) :
    (opValid [a, b, c, e, f, g, m] (opValid [a, b, c, e, f, g, m] impl).model).specFail = none := by
  by_cases hm : m = "data"
  · subst hm
    obtain ⟨hd1, hob⟩ := applyCorruptionExt_len g d _ _ d' ob' root' h6
    have hdl : ob'.length = Tree.outboardSize ⟨d.length, bs⟩ := by
      rw [hob, intactStore_data_length kind d bs hs hbs]
    rw [opValid_eq a b c e f g "data" impl fl kind d bs ranges d' ob' root' h1 h2 h3 h4 h5 h6,
      opValid_eq a b c e f g "data" _ fl kind d bs ranges d' ob' root' h1 h2 h3 h4 h5 h6]
    have hb : (("data" : String) == "data") = true := rfl
    simp only [hb]
    exact verdict_run_data fl kind d bs ranges d' ob' root' hs hbs hq hdl hd1
  · exact valid_specFail_uncut a b c e f g m impl fl kind d bs ranges d' ob' root' h1 h2 h3 h4 h5
      h6 hs hbs hq (fun h => absurd h hm)

/-- the intact store (`corruption = "-"`) -/
theorem valid_intact_specFail (a b c e f m impl : String) (fl : Flavour) (kind : StoreKind)
    (d : List UInt8) (bs : Nat) (ranges : List Nat)
    (h1 : flavour? a = some fl) (h2 : storeKind? b = some kind) (h3 : blob c = some d)
    (h4 : e.toNat? = some bs) (h5 : parseNatList f = some ranges)
    (hs : d.length ≤ 2 ^ 63) (hbs : bs ≤ 10) (hq : Ranges.WF ranges = true) :
    (opValid [a, b, c, e, f, "-", m] (opValid [a, b, c, e, f, "-", m] impl).model).specFail
      = none :=
  valid_specFail a b c e f "-" m impl fl kind d bs ranges d _ _ h1 h2 h3 h4 h5 rfl hs hbs hq

/-- no parsing hypothesis left: constant blobs of every size `n ≤ 2^63`, every flavour and store
kind, every well-formed query (printed canonically), the intact store, both modes -/
theorem valid_const_no_false_alarm (fls kinds m impl : String) (fl : Flavour) (kind : StoreKind)
    (h1 : flavour? fls = some fl) (h2 : storeKind? kinds = some kind) (byte n bs : Nat)
    (q : List Nat) (hn : n ≤ 2 ^ 63) (hbs : bs ≤ 10) (hq : Ranges.WF q = true) :
    let args := [fls, kinds, "const:" ++ toString byte ++ ":" ++ toString n, toString bs, natList q,
      "-", m]
    (opValid args (opValid args impl).model).specFail = none :=
  valid_intact_specFail fls kinds _ _ _ m impl fl kind _ bs q h1 h2 (SpecOb.blob_const byte n)
    (toNat?_toString bs) (SpecTrunc.parseNatList_natList q)
    (by rw [List.length_replicate]; exact hn) hbs hq

example : (opValid ["fsm", "postIo", "const:" ++ toString 7 ++ ":" ++ toString 100000, toString 2,
      natList [3, 9, 50], "-", "data"]
    (opValid ["fsm", "postIo", "const:" ++ toString 7 ++ ":" ++ toString 100000, toString 2,
      natList [3, 9, 50], "-", "data"] "").model).specFail = none :=
  valid_const_no_false_alarm "fsm" "postIo" "data" "" .fsm .postIo rfl rfl 7 100000 2 [3, 9, 50]
    (by decide) (by decide) (by decide)

example : (opValid ["sync", "empty", "const:" ++ toString 0 ++ ":" ++ toString 0, toString 0,
      natList [], "-", "ob"]
    (opValid ["sync", "empty", "const:" ++ toString 0 ++ ":" ++ toString 0, toString 0,
      natList [], "-", "ob"] "x").model).specFail = none :=
  valid_const_no_false_alarm "sync" "empty" "ob" "x" .sync .empty rfl rfl 0 0 0 []
    (by decide) (by decide) (by decide)

/-- no parsing hypothesis left, data file CUT at `len` bytes (`Td<len>`): constant blobs of every
size, every flavour and store kind, every well-formed query -/
theorem valid_const_cut_no_false_alarm (fls kinds m impl : String) (fl : Flavour)
    (kind : StoreKind) (h1 : flavour? fls = some fl) (h2 : storeKind? kinds = some kind)
    (byte n bs len : Nat) (q : List Nat) (hn : n ≤ 2 ^ 63) (hbs : bs ≤ 10)
    (hq : Ranges.WF q = true) :
    let args := [fls, kinds, "const:" ++ toString byte ++ ":" ++ toString n, toString bs, natList q,
      "Td" ++ toString len, m]
    (opValid args (opValid args impl).model).specFail = none :=
  valid_specFail fls kinds _ _ _ _ m impl fl kind _ bs q _ _ _ h1 h2 (SpecOb.blob_const byte n)
    (toNat?_toString bs) (SpecTrunc.parseNatList_natList q) (applyCorruptionExt_td len _ _ _)
    (by rw [List.length_replicate]; exact hn) hbs hq

/-- 5000 bytes cut at 2000, everything queried: the model prints `0:1 Io(UnexpectedEof)@last` and the
verdict accepts it -/
example : (opValid ["sync", "preMem", "const:" ++ toString 7 ++ ":" ++ toString 5000, toString 0,
      natList [0], "Td" ++ toString 2000, "data"]
    (opValid ["sync", "preMem", "const:" ++ toString 7 ++ ":" ++ toString 5000, toString 0,
      natList [0], "Td" ++ toString 2000, "data"] "").model).specFail = none :=
  valid_const_cut_no_false_alarm "sync" "preMem" "data" "" .sync .preMem rfl rfl 7 5000 0 2000 [0]
    (by decide) (by decide) (by decide)

/-! ## 3. the verdict is not vacuous: it rejects wrong outputs -/

/-- the verdict (no short group) rejects every terminal other than `ok` … -/
theorem verdict_rejects_terminal (want : List (Nat × Nat)) (bs : Nat) (d' : List UInt8)
    (iy ie : String) (h1 : NoSp iy) (h2 : NoSp ie) (hne : ie ≠ "ok") :
    validVerdict want [] bs d' (" ".intercalate [iy, ie]) = some s!"validator error {ie}" := by
  unfold validVerdict
  rw [splitOn_intercalate [iy, ie] (by simp) (by
    intro t ht
    simp only [List.mem_cons, List.not_mem_nil, or_false] at ht
    rcases ht with rfl | rfl
    · exact h1
    · exact h2)]
  have : (ie != "ok") = true := by simpa using hne
  simp [this]

/-- … and every list of reported ranges other than `want` -/
theorem verdict_rejects_ranges (want : List (Nat × Nat)) (bs : Nat) (d' : List UInt8)
    (iy : String) (h1 : NoSp iy) (hne : iy ≠ rangesStr want) :
    (validVerdict want [] bs d' (" ".intercalate [iy, "ok"])).isSome = true := by
  unfold validVerdict
  rw [splitOn_intercalate [iy, "ok"] (by simp) (by
    intro t ht
    simp only [List.mem_cons, List.not_mem_nil, or_false] at ht
    rcases ht with rfl | rfl
    · exact h1
    · exact noSp_lit "ok" (by decide))]
  have : (iy != (if want.isEmpty then "-" else ",".intercalate (want.map Proto.pair))) = true := by
    rw [bne_iff_ne]; exact hne
  simp only [List.isEmpty_nil, if_true, bne_self_eq_false, Bool.false_eq_true, if_false, this,
    Option.isSome_some]

example : validVerdict [(0, 1), (2, 3)] [] 0 [] (" ".intercalate ["0:1,2:3", "panic"])
    = some "validator error panic" :=
  verdict_rejects_terminal _ 0 [] "0:1,2:3" "panic" (noSp_lit _ (by decide)) (noSp_lit _ (by decide))
    (by decide)

example : (validVerdict [(0, 1), (2, 3)] [] 0 [] (" ".intercalate ["0:1", "ok"])).isSome = true :=
  verdict_rejects_ranges _ 0 [] "0:1" (noSp_lit _ (by decide)) (by decide)

example : validVerdict [(0, 1), (2, 3)] [] 0 [] (validModelStr ⟨[(0, 1), (2, 3)], .ok⟩) = none :=
  verdict_want _ 0 []


/-- the branch for a data file with missing bytes rejects a reported group that is not in `want` -/
theorem verdict_short_rejects (want ys : List (Nat × Nat)) (short : List Nat) (bs : Nat)
    (d' : List UInt8) (t : ValEnd) (hshort : short ≠ []) (hsp : NoSp (termStr t))
    (hbad : ∃ g ∈ ys, Proto.pair g ∉ want.map Proto.pair) :
    (validVerdict want short bs d' (validModelStr ⟨ys, t⟩)).isSome = true := by
  have hA : ((ys.map Proto.pair).all fun x => (want.map Proto.pair).contains x) = false := by
    rw [Bool.eq_false_iff]
    intro h
    rw [List.all_eq_true] at h
    obtain ⟨g, hg, hn⟩ := hbad
    have := h _ (List.mem_map_of_mem hg)
    rw [List.contains_iff_mem] at this
    exact hn this
  have hse : short.isEmpty = false := by
    cases short with
    | nil => exact absurd rfl hshort
    | cons _ _ => rfl
  unfold validVerdict
  simp only [split_model ⟨ys, t⟩ hsp, hse, Bool.false_eq_true, if_false, rep_eq, hA, Bool.not_false,
    if_true, Option.isSome_some]

example : (validVerdict [(0, 1)] [1] 0 [] (validModelStr ⟨[(0, 1), (1, 2)], .err eofErr⟩)).isSome
    = true :=
  verdict_short_rejects _ _ _ 0 [] _ (by decide) (noSp_lit _ (by decide))
    ⟨(1, 2), by decide, by decide⟩

example : validVerdict [(0, 1)] [1] 0 [] (validModelStr ⟨[(0, 1)], .err eofErr⟩) = none :=
  verdict_short _ _ _ 0 [] _ (by decide) (fun g hg => hg) (fun g hg _ => hg) (.inr rfl)


/-! ## 4. FINDING: the hypothesis `Ranges.WF` is needed

For a query whose boundaries are not strictly increasing the verdict REJECTS the model's own output
(a false alarm of the machinery, not of the crate: `ChunkRanges` cannot hold such a list, and the
generators `sort` + `dedup` every query).  Driver level (`#eval`):
`valid sync preMem idx:3000 0 3,1 - data` → model `2:3 ok`, verdict
`some "reported 2:3, verifiable and touched -"` (`Spec.selected 3000 [3, 1]` selects nothing, the
model's `split` of `[3, 1]` keeps the right half non-empty).  Component level, proved: an
`EmptyOutboard` over 3000 bytes whose root is the parent hash of two zero hashes, outboard-only
validator, query `[3, 1]`. -/

theorem not_wf_false_alarm :
    Ranges.WF [3, 1] = false ∧
    validRun .sync .empty (List.replicate 3000 7) 0 [3, 1] [] [] (hf.parentCv zeros32 zeros32 true)
      false = ⟨[(2, 3)], .ok⟩ ∧
    wantList .empty 3000 0 [3, 1] [] [] (hf.parentCv zeros32 zeros32 true) false = [] ∧
    (validVerdict [] [] 0 [] (validModelStr ⟨[(2, 3)], .ok⟩)).isSome = true := by
  refine ⟨by decide, by decide +kernel, by decide +kernel, ?_⟩
  rw [validModelStr_ok]
  exact verdict_rejects_ranges [] 0 [] _ (noSp_rangesStr _) (by decide)

end Bao.SpecValid

/-
Status (task NFA, operation `valid` = `Ops.opValid`, property C06).
Bounds throughout: `d.length ≤ 2^63`, `bs ≤ 10`, query well-formed (`Ranges.WF`, strictly increasing
boundaries).  Hash instance: the driver's `Ops.hf = realHash` (BLAKE3); NO hypothesis on the hash (no
collision freedom, no `hlen`): only the OUTPUT-length facts `SpecOb.hf_outLen` are used, to know that
the intact store's backing has the outboard size.  Every store content: the corrupted backing
`ob'`, the corrupted root `root'` and the data file `d'` are arbitrary subject to
`ob'.length = outboardSize`, `d'.length ≤ d.length` (both follow from `applyCorruptionExt_len`).

PROVED (component level; `Lemmas/SpecValidL.lean` has the lemmas):
  `load_component`       `Ops.specLoad` (slot = `Spec.preIndex` / `Spec.postIndex`) = the model's
                         `Store.load` (slot = `Tree.preOrderOffset` / `postOrderOffset`) on every
                         persisted node, five kinds, both flavours, backing of the outboard size.
  `verifiable_component` `ValidL.Verifiable` (C06) ↔ `∃ i < blocks, g = groupRange i ∧
                         verifiableBlock … i (log2ceil 64 blocks) 0 root true` (lemma
                         `linked_iff_vb`: `LinkedC` in shifted coordinates = the verdict's walk over
                         block intervals; `log2ceil_blocks`: the verdict's start height is the shifted
                         root level + 1; `leaf_iff`: same bytes hashed when `data.length ≤ size`).
  `touched_component`    the verdict's `touched` flag ↔ `blocks = 1 ∨ Touched` (C06).
  `want_component`       `g ∈ want ↔ Verifiable g ∧ (blocks = 1 ∨ Touched g)`; `wantList_sorted`.
  `noio_component`       `NoIo` for every store whose backing has the outboard size.
  `corruption_component` `applyCorruptionExt` keeps `ob.length`, never lengthens the data.
  `run_component`        data file not cut (`wd → d.length ≤ d'.length`): `validRun … = ⟨want, ok⟩`
                         (from `C06.reported_iff`, `reported_iff_outboard`, `validRanges_exact.sorted`).
  `short_component`      data validator, data file possibly cut (`Td<len>`; NOT covered by the C06
                         theorems, whose exactness half assumes `size ≤ data.length`): reported ⊆ want,
                         sorted, and the run ends `ok` with all of `want`, or with `Io(UnexpectedEof)`
                         at a group `i ∈ shortGroups` with everything of `want` in front of `i`
                         reported.  New induction over `validate_rec`: `SpecValidL.rec_end` (`EndSpec`).
  `no_short_component`   `shortGroups = []` ⇒ `validRun … = ⟨want, ok⟩` even when the file is cut
                         behind the touched groups.
PROVED (op level, string level included: `splitOn " "`, `splitOn ","` of the model's line):
  `valid_specFail`       `(opValid args (opValid args impl).model).specFail = none` for all seven
                         argument strings that parse (flavour, kind, blob, bs, query, corruption; any
                         mode string), every corruption incl. `Td<len>`, both branches of the verdict
                         (`shortGroups` empty / non-empty).
  `valid_specFail_uncut` the part that needs only the C06 theorems (data file not cut).
  `valid_intact_specFail`, `valid_const_no_false_alarm`, `valid_const_cut_no_false_alarm`
                         no parsing hypothesis left: constant blobs, canonical query text, corruption
                         `-` resp. `Td<len>`.
  non-vacuity of the verdict: `verdict_rejects_terminal` (any terminal ≠ `ok` is rejected),
  `verdict_rejects_ranges` (any range list ≠ `want` is rejected), `verdict_short_rejects` (short
  branch: a reported group outside `want` is rejected), with `decide` examples.
PARTIAL: none.   OPEN: none.

FINDING (`not_wf_false_alarm`, proved with `decide +kernel`): without `Ranges.WF` the statement is
  FALSE – `valid sync preMem idx:3000 0 3,1 - data` prints `2:3 ok` and the verdict answers
  `some "reported 2:3, verifiable and touched -"`.  The generators (`harness/src/gen2.rs`, properties
  `C06` and `C06short`) cannot emit such a query: `query_classes` / `random_ranges` `sort` and `dedup`
  every boundary list, `C06short` uses `[0]`, `[a]`, `[a, b]` with `a < b`; block sizes are `0 … 4`,
  sizes `≤ 300 000`.  So every generated `valid` case lies inside the theorem.
REMARKS on the model / verdict (no statement affected):
  * `want` hashes, for a group whose bytes are not all in the data file, the bytes that ARE there
    (`(data.drop s).take n`), the model's validator answers such a group with an io error; the two
    agree because a short group is never reported (`short_component`), not because of the hash.
  * the verdict's `shortGroups.head!` is the least short touched group (`shortGroups_sorted`); the model
    stops at a short touched group that is also linked, which may be a later one.
  * `opValid` with an unparsable corruption answers `bad-op` with `specFail = some "bad-op"` whatever the
    implementation prints (not an "argument list that parses").

Axioms (`#print axioms`): every theorem of this file and of `SpecValidL`: [propext, Classical.choice,
Quot.sound].
-/
