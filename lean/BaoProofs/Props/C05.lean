import BaoProofs.Lemmas.EncL

/-!
# C05: the validating encoder never sends bytes that fail verification

`encodeRangesValidated hf fl data ob q` (`sync::encode_ranges_validated` /
`fsm::encode_ranges_validated`) walks the plan `planOf ob q` of the query with a stack of pending
hashes that starts as `[ob.root]`, and checks every loaded pair and every leaf it reads against the
popped hash BEFORE writing anything of that item.

Setting.  `S = (data, ob)` is ANY store contents; `S₀ = (data₀, ob₀)` is a *reference* store with
the same root and the same tree on which the validating encoder runs to `.ok` ("honest" is
characterised abstractly by this; by `validated_ok_reads_true` such a store holds, at every place
the query reads, the true data of the blob committed to by the root, and by `validated_ok_unique`
all such stores emit the same bytes: *the* honest encoding for this root, tree and query).  The two
runs may even use different flavours.

Hypotheses: `CollisionFree hf` (`Lemmas/HashCF.lean`), `[LawfulBEq H]`, and both data files at most
`2^64 · 1024` bytes (the domain of `hash_subtree`).  Properness of the prefix needs
`hf.toBytes h ≠ []` (true for 32-byte hashes).

NOT assumed: the wire round trip `ofBytes (toBytes h) = h` and `|toBytes h| = 32`.  They are not
needed, and together with the global `CollisionFree hf` they would be UNSATISFIABLE (`toBytes`
injective into the finite set of 32-byte strings makes `H` finite, `chunkCv` injective on an
infinite domain makes it infinite; machine-checked: `Bao.collisionFree_wire_unsat` in
`Lemmas/CFUnsat.lean`) — every theorem carrying all three would be vacuous.

Vocabulary (`Lemmas/EncL.lean`):
* `planOf ob q`   – the plan the encoder walks (`none` = the plan iterator panics);
* `AgreeAt hf fl fl₀ data ob data₀ ob₀ c` – the one store access plan item `c` makes returns the
  same in both stores: `load` of the node for a parent item, `readExactAt` of the byte range for a
  leaf item.  "The parts of the store the query depends on" are these accesses for `c ∈ plan`;
* `ReadTrue hf fl data ob d c` – that access returns a `TruePair` / `TrueLeaf` of blob `d` (C01);
* `heightRun 1 plan` – height of the pending-hash stack along the plan (`none` = underflow).
-/

namespace Bao.C05

variable {H : Type} [BEq H] [LawfulBEq H] {hf : HashFns H}

omit [BEq H] [LawfulBEq H] in
/-- the hash `encode_selected_rec` returns for a partially selected chunk group is the subtree hash
of ALL its bytes (so the leaf check of a partial group is as strong as that of a full one) -/
theorem selectedRec_hash (hf : HashFns H) (start : Nat) (buf : List UInt8) (isRoot : Bool)
    (query : Ranges) (minLevel : Nat) (emit : Bool) (h : buf.length ≤ 2 ^ 64 * 1024) :
    (encodeSelectedRec hf recFuel start buf isRoot query minLevel emit).1
      = hashSubtree hf start buf isRoot :=
  encodeSelectedRec_hash hf recFuel start buf isRoot query minLevel emit (Nat.le_refl _) h

/-- **Prefix.**  On ANY store the validating encoder emits a prefix of what it emits on a
reference store with the same root and tree that passes all checks; if it returns `.ok` it emitted
exactly the same bytes. -/
theorem validated_prefix_rel (cf : CollisionFree hf) (fl fl₀ : Flavour) (data data₀ : List UInt8)
    (ob ob₀ : Store H) (q : Ranges) (htree : ob.tree = ob₀.tree) (hroot : ob.root = ob₀.root)
    (hd : data.length ≤ 2 ^ 64 * 1024) (hd₀ : data₀.length ≤ 2 ^ 64 * 1024)
    (hok : (encodeRangesValidated hf fl₀ data₀ ob₀ q).terminal = .ok) :
    (encodeRangesValidated hf fl data ob q).out <+: (encodeRangesValidated hf fl₀ data₀ ob₀ q).out ∧
    ((encodeRangesValidated hf fl data ob q).terminal = .ok →
      (encodeRangesValidated hf fl data ob q).out = (encodeRangesValidated hf fl₀ data₀ ob₀ q).out) := by
  obtain ⟨_, _, _, h1, h2, _⟩ := validated_rel (fl := fl) cf htree hroot hd hd₀ q hok
  exact ⟨h1, fun h => (h2 h).1⟩

/-- **Proper prefix.**  If the run on `S` does not end `.ok` (hash mismatch, io error or panic),
what it emitted is strictly shorter than the reference output. -/
theorem validated_proper_prefix (cf : CollisionFree hf) (hb : ∀ h, hf.toBytes h ≠ [])
    (fl fl₀ : Flavour) (data data₀ : List UInt8) (ob ob₀ : Store H) (q : Ranges)
    (htree : ob.tree = ob₀.tree) (hroot : ob.root = ob₀.root)
    (hd : data.length ≤ 2 ^ 64 * 1024) (hd₀ : data₀.length ≤ 2 ^ 64 * 1024)
    (hok : (encodeRangesValidated hf fl₀ data₀ ob₀ q).terminal = .ok)
    (hne : (encodeRangesValidated hf fl data ob q).terminal ≠ .ok) :
    (encodeRangesValidated hf fl data ob q).out <+: (encodeRangesValidated hf fl₀ data₀ ob₀ q).out ∧
    (encodeRangesValidated hf fl data ob q).out.length
      < (encodeRangesValidated hf fl₀ data₀ ob₀ q).out.length := by
  obtain ⟨_, _, _, h1, _, h3⟩ := validated_rel (fl := fl) cf htree hroot hd hd₀ q hok
  exact ⟨h1, h3 hb hne⟩

/-- **Detection.**  If the run on `S` ends `.ok` too, then `S` and the reference store agree on
every access the plan makes … -/
theorem validated_ok_agree (cf : CollisionFree hf) (fl fl₀ : Flavour) (data data₀ : List UInt8)
    (ob ob₀ : Store H) (q : Ranges) (htree : ob.tree = ob₀.tree) (hroot : ob.root = ob₀.root)
    (hd : data.length ≤ 2 ^ 64 * 1024) (hd₀ : data₀.length ≤ 2 ^ 64 * 1024)
    (hok₀ : (encodeRangesValidated hf fl₀ data₀ ob₀ q).terminal = .ok)
    (hok : (encodeRangesValidated hf fl data ob q).terminal = .ok) :
    ∃ plan, planOf ob q = some plan ∧ ∀ c ∈ plan, AgreeAt hf fl fl₀ data ob data₀ ob₀ c := by
  obtain ⟨plan, hp, _, _, h2, _⟩ := validated_rel (fl := fl) cf htree hroot hd hd₀ q hok₀
  exact ⟨plan, hp, (h2 hok).2⟩

/-- … hence: if `S` differs from the reference store in anything the query depends on (the pair
loaded for some parent of the plan, or the bytes read for some leaf of the plan), the run on `S`
does not end `.ok` (by `validated_error_kind` it ends with a hash mismatch, unless io fails or it
panics), and what it emitted is a proper prefix by `validated_proper_prefix`. -/
theorem validated_detects (cf : CollisionFree hf) (fl fl₀ : Flavour) (data data₀ : List UInt8)
    (ob ob₀ : Store H) (q : Ranges) (htree : ob.tree = ob₀.tree) (hroot : ob.root = ob₀.root)
    (hd : data.length ≤ 2 ^ 64 * 1024) (hd₀ : data₀.length ≤ 2 ^ 64 * 1024)
    (hok₀ : (encodeRangesValidated hf fl₀ data₀ ob₀ q).terminal = .ok)
    {plan : List Chunk} (hp : planOf ob q = some plan) {c : Chunk} (hc : c ∈ plan)
    (hdiff : ¬ AgreeAt hf fl fl₀ data ob data₀ ob₀ c) :
    (encodeRangesValidated hf fl data ob q).terminal ≠ .ok := by
  intro hok
  obtain ⟨plan', hp', h⟩ := validated_ok_agree cf fl fl₀ data data₀ ob ob₀ q htree hroot hd hd₀ hok₀ hok
  rw [hp] at hp'
  cases hp'
  exact hdiff (h c hc)

omit [LawfulBEq H] in
/-- **Error kind.**  When `load` cannot fail with an io error (e.g. the memory stores,
`load_mem_ne_err`) and the data file covers every leaf of the plan, the terminal is `.ok`, a
`ParentHashMismatch` at a parent node of the plan, a `LeafHashMismatch` at a leaf of the plan, or a
panic — the last only if the plan iterator panics, the pending-hash stack underflows, or `load`
returns `None` / panics for a parent node of the plan.  (`Props/C05Plan.lean` removes the first two
causes for trees with `size ≤ 2^63`, `bs ≤ 10` and derives the data hypothesis from
`ob.tree.size ≤ data.length`.) -/
theorem validated_error_kind (hf : HashFns H) (fl : Flavour) (data : List UInt8) (ob : Store H)
    (q : Ranges) (hio : ∀ node e, ob.load hf fl node ≠ .err e)
    (hdata : ∀ plan, planOf ob q = some plan → ∀ start size ir rs,
      Chunk.leaf start size ir rs ∈ plan → toBytes start + size ≤ data.length) :
    (encodeRangesValidated hf fl data ob q).terminal = .ok ∨
    (∃ plan node ir lf rf rs, planOf ob q = some plan ∧ Chunk.parent node ir lf rf rs ∈ plan ∧
      (encodeRangesValidated hf fl data ob q).terminal = .err (.parentHashMismatch node)) ∨
    (∃ plan start size ir rs, planOf ob q = some plan ∧ Chunk.leaf start size ir rs ∈ plan ∧
      (encodeRangesValidated hf fl data ob q).terminal = .err (.leafHashMismatch start)) ∨
    ((encodeRangesValidated hf fl data ob q).terminal = .panic ∧
      (planOf ob q = none ∨
       (∃ plan, planOf ob q = some plan ∧ heightRun 1 plan = none) ∨
       (∃ plan node ir lf rf rs, planOf ob q = some plan ∧ Chunk.parent node ir lf rf rs ∈ plan ∧
          (ob.load hf fl node = .panic ∨ ob.load hf fl node = .ok none)))) :=
  validated_kind hf fl data ob q hio hdata

omit [LawfulBEq H] in
/-- **Frame.**  Two stores with the same root and tree that agree on every `load` of the plan's
parent nodes and every `readExactAt` of the plan's leaves give identical runs (output and
terminal): differences anywhere else in the data file or in the outboard change nothing. -/
theorem frame (hf : HashFns H) (fl fl₀ : Flavour) (data data₀ : List UInt8) (ob ob₀ : Store H)
    (q : Ranges) (htree : ob.tree = ob₀.tree) (hroot : ob.root = ob₀.root)
    (h : ∀ plan, planOf ob q = some plan → ∀ c ∈ plan, AgreeAt hf fl fl₀ data ob data₀ ob₀ c) :
    encodeRangesValidated hf fl data ob q = encodeRangesValidated hf fl₀ data₀ ob₀ q :=
  validated_frame htree hroot q h

/-- all stores (same root, same tree) that pass validation emit the same bytes -/
theorem validated_ok_unique (cf : CollisionFree hf) (fl fl₀ : Flavour) (data data₀ : List UInt8)
    (ob ob₀ : Store H) (q : Ranges) (htree : ob.tree = ob₀.tree) (hroot : ob.root = ob₀.root)
    (hd : data.length ≤ 2 ^ 64 * 1024) (hd₀ : data₀.length ≤ 2 ^ 64 * 1024)
    (hok₀ : (encodeRangesValidated hf fl₀ data₀ ob₀ q).terminal = .ok)
    (hok : (encodeRangesValidated hf fl data ob q).terminal = .ok) :
    (encodeRangesValidated hf fl data ob q).out = (encodeRangesValidated hf fl₀ data₀ ob₀ q).out :=
  (validated_prefix_rel cf fl fl₀ data data₀ ob ob₀ q htree hroot hd hd₀ hok₀).2 hok

/-- **What "passes validation" means.**  If the root is the root hash of blob `d` and the run ends
`.ok`, then every pair it loaded is the true pair of a node of the tree of `d` and every leaf it
read is the bytes of `d` at that place — so everything it sent verifies. -/
theorem validated_ok_reads_true (cf : CollisionFree hf) {d : List UInt8}
    (hd : d.length ≤ 2 ^ 64 * 1024) (fl : Flavour) (data : List UInt8) (ob : Store H) (q : Ranges)
    (hdata : data.length ≤ 2 ^ 64 * 1024) (hroot : ob.root = Spec.root hf d)
    (hok : (encodeRangesValidated hf fl data ob q).terminal = .ok) :
    ∃ plan, planOf ob q = some plan ∧ ∀ c ∈ plan, ReadTrue hf fl data ob d c :=
  validated_true cf hd hdata hroot q hok

/-! ## non-vacuity

`exHash` (`Lemmas/EncL.lean`): the free term algebra (collision free) with non-empty wire bytes.
Reference store: the two-chunk blob `1024 × 0 ++ [1]` with its one-pair pre-order outboard, which
passes validation (plan: the root parent, two leaves).  Corrupted stores: the last data byte
changed; the second stored hash changed. -/

section
private def blob2 : List UInt8 := List.replicate 1024 0 ++ [1]
private def bad2 : List UInt8 := List.replicate 1024 0 ++ [2]
private def root2 : Term := .parent (.chunk 0 (List.replicate 1024 0) false) (.chunk 1 [1] false) true
private def ob2 : Store Term := ⟨.preMem, root2, ⟨1025, 0⟩, zeros32 ++ List.replicate 32 1⟩
/-- the same outboard with an unused trailing byte -/
private def ob2' : Store Term := ⟨.preMem, root2, ⟨1025, 0⟩, zeros32 ++ List.replicate 32 1 ++ [9]⟩

private theorem len_blob2 : blob2.length ≤ 2 ^ 64 * 1024 := by
  simp only [blob2, List.length_append, List.length_replicate, List.length_singleton]; omega
private theorem len_bad2 : bad2.length ≤ 2 ^ 64 * 1024 := by
  simp only [bad2, List.length_append, List.length_replicate, List.length_singleton]; omega

set_option maxRecDepth 100000 in
private theorem ok2 : (encodeRangesValidated exHash .sync blob2 ob2 [0]).terminal = .ok := by decide

set_option maxRecDepth 100000 in
private theorem ok2' : (encodeRangesValidated exHash .fsm blob2 ob2' [0]).terminal = .ok := by decide

set_option maxRecDepth 100000 in
private theorem bad2_err :
    (encodeRangesValidated exHash .fsm bad2 ob2 [0]).terminal = .err (.leafHashMismatch 1) := by
  decide

set_option maxRecDepth 100000 in
private theorem plan2 : planOf ob2 [0] = some
    [.parent 0 true true true [0], .leaf 0 1024 false [0], .leaf 1 1 false [0]] := by decide

example : (encodeSelectedRec exHash recFuel 0 blob2 true [0, 1] 0 true).1
    = hashSubtree exHash 0 blob2 true :=
  selectedRec_hash exHash 0 blob2 true [0, 1] 0 true len_blob2

example :
    (encodeRangesValidated exHash .fsm bad2 ob2 [0]).out
      <+: (encodeRangesValidated exHash .sync blob2 ob2 [0]).out ∧
    ((encodeRangesValidated exHash .fsm bad2 ob2 [0]).terminal = .ok →
      (encodeRangesValidated exHash .fsm bad2 ob2 [0]).out
        = (encodeRangesValidated exHash .sync blob2 ob2 [0]).out) :=
  validated_prefix_rel exHash_cf .fsm .sync bad2 blob2 ob2 ob2 [0] rfl rfl len_bad2 len_blob2 ok2

example :
    (encodeRangesValidated exHash .fsm bad2 ob2 [0]).out
      <+: (encodeRangesValidated exHash .sync blob2 ob2 [0]).out ∧
    (encodeRangesValidated exHash .fsm bad2 ob2 [0]).out.length
      < (encodeRangesValidated exHash .sync blob2 ob2 [0]).out.length :=
  validated_proper_prefix exHash_cf exHash_toBytes_ne .fsm .sync bad2 blob2 ob2 ob2 [0] rfl rfl
    len_bad2 len_blob2 ok2 (by rw [bad2_err]; simp)

example : ∃ plan, planOf ob2' [0] = some plan ∧
    ∀ c ∈ plan, AgreeAt exHash .fsm .sync blob2 ob2' blob2 ob2 c :=
  validated_ok_agree exHash_cf .fsm .sync blob2 blob2 ob2' ob2 [0] rfl rfl len_blob2 len_blob2 ok2 ok2'

set_option maxRecDepth 100000 in
example : (encodeRangesValidated exHash .fsm bad2 ob2 [0]).terminal ≠ .ok :=
  validated_detects exHash_cf .fsm .sync bad2 blob2 ob2 ob2 [0] rfl rfl len_bad2 len_blob2 ok2
    plan2 (c := .leaf 1 1 false [0]) (by simp) (by
      simp only [AgreeAt]
      intro h
      have h2 := congrArg (fun x => match x with | .ok b => b | .error _ => []) h
      revert h2
      decide)

set_option maxRecDepth 100000 in
example :
    (encodeRangesValidated exHash .fsm bad2 ob2 [0]).terminal = .ok ∨
    (∃ plan node ir lf rf rs, planOf ob2 [0] = some plan ∧ Chunk.parent node ir lf rf rs ∈ plan ∧
      (encodeRangesValidated exHash .fsm bad2 ob2 [0]).terminal = .err (.parentHashMismatch node)) ∨
    (∃ plan start size ir rs, planOf ob2 [0] = some plan ∧ Chunk.leaf start size ir rs ∈ plan ∧
      (encodeRangesValidated exHash .fsm bad2 ob2 [0]).terminal = .err (.leafHashMismatch start)) ∨
    ((encodeRangesValidated exHash .fsm bad2 ob2 [0]).terminal = .panic ∧
      (planOf ob2 [0] = none ∨
       (∃ plan, planOf ob2 [0] = some plan ∧ heightRun 1 plan = none) ∨
       (∃ plan node ir lf rf rs, planOf ob2 [0] = some plan ∧ Chunk.parent node ir lf rf rs ∈ plan ∧
          (ob2.load exHash .fsm node = .panic ∨ ob2.load exHash .fsm node = .ok none)))) :=
  validated_error_kind exHash .fsm bad2 ob2 [0]
    (fun node e => load_mem_ne_err exHash .fsm ob2 node (.inl rfl) e)
    (by
      intro plan hp start size ir rs hmem
      rw [plan2] at hp
      cases hp
      simp only [List.mem_cons, List.not_mem_nil, or_false, Chunk.leaf.injEq, reduceCtorEq,
        false_or] at hmem
      rcases hmem with ⟨rfl, rfl, _, _⟩ | ⟨rfl, rfl, _, _⟩ <;> decide)

set_option maxRecDepth 100000 in
/-- the trailing byte of `ob2'` is not read by the plan -/
example : encodeRangesValidated exHash .fsm blob2 ob2' [0]
    = encodeRangesValidated exHash .sync blob2 ob2 [0] :=
  frame exHash .fsm .sync blob2 blob2 ob2' ob2 [0] rfl rfl (by
    intro plan hp c hc
    have : planOf ob2' [0] = planOf ob2 [0] := rfl
    rw [this, plan2] at hp
    cases hp
    simp only [List.mem_cons, List.not_mem_nil, or_false] at hc
    rcases hc with rfl | rfl | rfl
    · simp only [AgreeAt]; decide
    · rfl
    · rfl)

example : (encodeRangesValidated exHash .fsm blob2 ob2' [0]).out
    = (encodeRangesValidated exHash .sync blob2 ob2 [0]).out :=
  validated_ok_unique exHash_cf .fsm .sync blob2 blob2 ob2' ob2 [0] rfl rfl len_blob2 len_blob2 ok2 ok2'

/-- a one-chunk blob with its true root: the hypotheses of `validated_ok_reads_true` hold -/
private def blob1 : List UInt8 := [1, 2, 3]
private def ob1 : Store Term := ⟨.postMem, Spec.root exHash blob1, ⟨3, 0⟩, []⟩

set_option maxRecDepth 100000 in
example : ∃ plan, planOf ob1 [0] = some plan ∧ ∀ c ∈ plan, ReadTrue exHash .sync blob1 ob1 blob1 c :=
  validated_ok_reads_true exHash_cf (d := blob1) (by decide) .sync blob1 ob1 [0] (by decide) rfl
    (by decide)

end

/-
## Status

Proved (axioms: propext, Classical.choice, Quot.sound):
* `selectedRec_hash`        – first component of `encodeSelectedRec` = `hashSubtree` of the buffer
* `validated_prefix_rel`    – output on any store is a prefix of the output on a store that passes
                              validation (same root, tree; any flavours); `.ok` ⇒ equal outputs
* `validated_proper_prefix` – not `.ok` ⇒ strictly shorter (needs `toBytes h ≠ []`)
* `validated_ok_agree`, `validated_detects` – a difference in any `load` / `readExactAt` the plan
                              makes ⇒ the run does not end `.ok`
* `validated_error_kind`    – no io errors ⇒ `.ok` | `ParentHashMismatch` at a plan parent |
                              `LeafHashMismatch` at a plan leaf | `.panic` with its three causes
* `frame`                   – stores agreeing on the plan's accesses give identical runs
* `validated_ok_unique`     – all validating stores emit the same bytes
* `validated_ok_reads_true` – `.ok` against `Spec.root hf d` ⇒ every access returned true data of `d`
(`Props/C05Plan.lean`: `validated_error_kind_tree`, the panic causes reduced to `load` for
`size ≤ 2^63`, `bs ≤ 10`.)

`_partial`: none in this file.

OPEN
-- OPEN: theorem honest_ok : for `data₀ = d`, `ob₀` = a pre/post-order store holding
--   `Spec.preOutboard hf d bs` / `Spec.postOutboard hf d bs` with root `Spec.root hf d` and tree
--   `⟨d.length, bs⟩`: `(encodeRangesValidated hf fl d ob₀ q).terminal = .ok` and its output is
--   `Spec.encode hf d bs q`.  This is C04 (encoder = spec); it needs `ofBytes (toBytes h) = h` on
--   the hashes of the tree, i.e. a LOCALISED collision freeness (`CollisionFreeOn` the finitely many
--   hash inputs of the two runs) instead of the global `CollisionFree`, see the header.  With it,
--   "prefix of the reference output" becomes "prefix of `Spec.encode`".
-- OPEN: byte-level reading of `AgreeAt` for parents: `load` agrees iff the 64 stored bytes of the
--   slot parse to the same pair; "any differing stored byte is detected" additionally needs
--   `ofBytes` injective on 32-byte strings (true for the real `Hash::from`).
-- OPEN: "never panics": plan parents are persisted nodes of the tree (so `load` returns
--   `Some`, and does not panic when `outboardSize ≤ ob.data.length`) — needs a PlanPre lemma
--   "parent items of `plan ⟨size,bs⟩ 0 q` are nodes of level ≥ bs inside the tree" plus
--   `DecSim.slot_lt_pre/post`.
-- The item-stream encoder (`mixed.rs`, `traverseRangesValidated`) is related to this one by
--   `C08.mixed_flatten`; not restated here.

Remarks on the model
* `encodeRangesValidated` checks leaves with `encodeSelectedRec … recFuel` (`recFuel = 64`); the
  equality with `hashSubtree` needs `buf.length ≤ 2^64·1024`, which is where the data length
  hypotheses come from (any real chunk group is far smaller).
* The empty-query early return of the sync flavour coincides with the loop on the empty plan
  (`validated_eq_loop`), so all theorems hold across flavours.
-/

end Bao.C05
