import BaoProofs.Lemmas.PlanPreTop

/-!
# C15 (pre-order half) — the public chunk plans are well-shaped

"For every blob size, block size, minimum-leaf level and query, the public chunk plans list
leaves that are disjoint, in increasing order, each inside one subtree, and together cover
exactly the chunk groups (or, below the block size, chunks) the selection touches.  Every parent
comes before its subtree, its left/right flags say which children follow, the root flag is set
on exactly the root item, and running the hash stack over the plan never underflows and ends
balanced."

This file treats `Tree.prePartialChunks` (`ranges_pre_order_chunks_iter_ref`, the explicit-stack
iterator `PreOrderPartialChunkIterRef`) and `Tree.responseChunks` (`ResponseIter`).  The
post-order plan is in `Props/C15Post.lean`.

Method.  `PlanPre.plan t ml q` (`Lemmas/PlanPre.lean`) is the plan written as a structural
recursion over the shifted tree.  `pre_refines` shows that the iterator of the model — stack,
buffer, `right_descendant` skipping, fuel — yields exactly this list and never reaches one of
its three panic branches.  All shape properties are proved on the recursion
(`Lemmas/PlanPreShape.lean`, `Lemmas/PlanPreCover.lean`, `Lemmas/PlanPreExact.lean`) and
transported here.

Vocabulary (definitions in the lemma files, namespace `Bao.PlanPre`):
* `stackRun h p : Option Nat` — run the decoder's hash stack over `p` starting with `h` expected
  hashes: every item needs `h ≥ 1` and pops one, a parent pushes one per set flag; `none` =
  underflow;
* `Chunk.rootFlag` — the `is_root` field of an item;
* `leafSpans p` — the chunk spans `(start, start + max 1 ⌈size/1024⌉)` of the leaf items of `p`,
  in order (`max 1`: the empty blob has one empty chunk);
* `SpansIn lo hi l` — all spans of `l` are non-empty, inside `[lo, hi)`, and consecutive spans do
  not overlap (`a.2 ≤ b.1` for `a` before `b`);
* `covered p c` — some leaf item of `p` has `c` in its span;
* `Spec.selected size q c` — chunk `c` of the blob is selected by `q` (queried chunks inside the
  blob, plus the last chunk when the query reaches it or beyond).

Bounds: `size ≤ 2^63`, `bs ≤ 10` (the crate's `BlockSize` is at most 10 in practice; this is
what makes real node ids fit into a `u64`).
-/

namespace Bao.C15
open Bao Bao.Spec Bao.PlanPre

variable {size bs ml : Nat} {q : Ranges} {p : List Chunk}

/-! ## refinement: the iterator computes the recursive plan -/

/-- the explicit-stack iterator yields exactly the recursive plan: no `debug_assert!` /
`unwrap()` panic is reachable and `3·filled + 6` calls of `next` exhaust it -/
theorem pre_refines (hs : size ≤ 2 ^ 63) (hbs : bs ≤ 10) :
    Tree.prePartialChunks ⟨size, bs⟩ q ml = some (plan ⟨size, bs⟩ ml q) :=
  planPre_refines size bs ml q hs hbs

/-- the same with ANY number of `next` calls that is at least the length of the plan (which is at
most three items per node of the shifted tree): the fuel of the model is not what makes the
statement true -/
theorem pre_refines_any_fuel (hs : size ≤ 2 ^ 63) (hbs : bs ≤ 10) (fuel : Nat)
    (hf : (plan ⟨size, bs⟩ ml q).length ≤ fuel) :
    PrePartial.run fuel (PrePartial.new ⟨size, bs⟩ q ml) = some (plan ⟨size, bs⟩ ml q) ∧
    (plan ⟨size, bs⟩ ml q).length ≤ 3 * (Tree.shifted ⟨size, bs⟩).2 :=
  ⟨new_run_eq size bs ml q hs hbs fuel hf, plan_length_le _ _ _⟩

example : (20000 : Nat) ≤ 2 ^ 63 ∧ (1 : Nat) ≤ 10 ∧ (plan ⟨20000, 1⟩ 0 [1, 3]).length ≤ 6 := by
  decide

/-- the iterators never panic -/
theorem pre_total (hs : size ≤ 2 ^ 63) (hbs : bs ≤ 10) :
    (Tree.prePartialChunks ⟨size, bs⟩ q ml).isSome = true ∧
    (Tree.responseChunks ⟨size, bs⟩ q).isSome = true := by
  rw [planPre_refines size bs ml q hs hbs, PlanPre.response_refines size bs q hs]
  exact ⟨rfl, rfl⟩

example : (20000 : Nat) ≤ 2 ^ 63 ∧ (1 : Nat) ≤ 10 := by decide

/-- the response plan is the recursive plan of the block-size-0 tree with `min_full_level = bs`,
ranges erased -/
theorem response_refines (hs : size ≤ 2 ^ 63) :
    Tree.responseChunks ⟨size, bs⟩ q = some ((plan ⟨size, 0⟩ bs q).map Chunk.withoutRanges) :=
  PlanPre.response_refines size bs q hs

/-- an empty query has an empty plan (not even the root; defect D2 repaired) -/
theorem pre_empty (hs : size ≤ 2 ^ 63) (hbs : bs ≤ 10) :
    Tree.prePartialChunks ⟨size, bs⟩ [] ml = some [] := by
  rw [pre_refines hs hbs, plan_nil]

theorem eq_plan (hs : size ≤ 2 ^ 63) (hbs : bs ≤ 10)
    (hp : Tree.prePartialChunks ⟨size, bs⟩ q ml = some p) : p = plan ⟨size, bs⟩ ml q := by
  rw [pre_refines hs hbs] at hp; exact (Option.some.inj hp).symm

theorem eq_plan_response (hs : size ≤ 2 ^ 63)
    (hp : Tree.responseChunks ⟨size, bs⟩ q = some p) :
    p = (plan ⟨size, 0⟩ bs q).map Chunk.withoutRanges := by
  rw [response_refines hs] at hp; exact (Option.some.inj hp).symm

/-- the running example: 20000 bytes, chunk groups of 2 chunks, query chunks `[1, 3)` -/
example : (20000 : Nat) ≤ 2 ^ 63 ∧ (1 : Nat) ≤ 10 ∧
    Tree.prePartialChunks ⟨20000, 1⟩ [1, 3] 0 = some
      [.parent 15 true true false [1, 3], .parent 7 false true false [1, 3],
       .parent 3 false true false [1, 3], .parent 1 false true true [1, 3],
       .leaf 0 2048 false [1], .leaf 2 2048 false [1, 3]] := by decide

example : (20000 : Nat) ≤ 2 ^ 63 ∧
    Tree.responseChunks ⟨20000, 1⟩ [1, 3] = some
      [.parent 15 true true false [], .parent 7 false true false [],
       .parent 3 false true false [], .parent 1 false true true [],
       .parent 0 false false true [], .leaf 1 1024 false [],
       .parent 2 false true false [], .leaf 2 1024 false []] := by decide

/-! ## hash-stack discipline -/

/-- starting with one expected hash (the root), the stack never underflows — neither at the end
nor on any prefix — and ends empty -/
theorem stack_discipline (hs : size ≤ 2 ^ 63) (hbs : bs ≤ 10) (hq : q ≠ [])
    (hp : Tree.prePartialChunks ⟨size, bs⟩ q ml = some p) :
    stackRun 1 p = some 0 ∧ ∀ n, (stackRun 1 (p.take n)).isSome = true := by
  rw [eq_plan hs hbs hp]
  exact ⟨plan_stack size bs ml q hs hbs hq, plan_stack_prefix size bs ml q hs hbs hq⟩

theorem stack_discipline_response (hs : size ≤ 2 ^ 63) (hq : q ≠ [])
    (hp : Tree.responseChunks ⟨size, bs⟩ q = some p) :
    stackRun 1 p = some 0 ∧ ∀ n, (stackRun 1 (p.take n)).isSome = true := by
  rw [eq_plan_response hs hp]
  refine ⟨by rw [stackRun_withoutRanges]; exact plan_stack size 0 bs q hs (by omega) hq, ?_⟩
  intro n
  rw [take_map_withoutRanges, stackRun_withoutRanges]
  exact plan_stack_prefix size 0 bs q hs (by omega) hq n

example : (20000 : Nat) ≤ 2 ^ 63 ∧ (1 : Nat) ≤ 10 ∧ ([1, 3] : Ranges) ≠ [] ∧
    (Tree.prePartialChunks ⟨20000, 1⟩ [1, 3] 0).isSome = true ∧
    (Tree.responseChunks ⟨20000, 1⟩ [1, 3]).isSome = true := by decide

/-! ## root flag -/

/-- `is_root` is set on the first item and on no other -/
theorem root_flag (hs : size ≤ 2 ^ 63) (hbs : bs ≤ 10) (hq : q ≠ [])
    (hp : Tree.prePartialChunks ⟨size, bs⟩ q ml = some p) :
    ∃ c tail, p = c :: tail ∧ c.rootFlag = true ∧ ∀ c' ∈ tail, c'.rootFlag = false := by
  rw [eq_plan hs hbs hp]
  exact plan_root size bs ml q hs hq

theorem root_flag_response (hs : size ≤ 2 ^ 63) (hq : q ≠ [])
    (hp : Tree.responseChunks ⟨size, bs⟩ q = some p) :
    ∃ c tail, p = c :: tail ∧ c.rootFlag = true ∧ ∀ c' ∈ tail, c'.rootFlag = false := by
  rw [eq_plan_response hs hp]
  obtain ⟨c, tail, e, hc, ht⟩ := plan_root size 0 bs q hs hq
  refine ⟨c.withoutRanges, tail.map Chunk.withoutRanges, by rw [e]; rfl, ?_, ?_⟩
  · rw [rootFlag_withoutRanges]; exact hc
  · intro c' hc'
    obtain ⟨c0, h0, rfl⟩ := List.mem_map.1 hc'
    rw [rootFlag_withoutRanges]; exact ht c0 h0

example : (20000 : Nat) ≤ 2 ^ 63 ∧ (1 : Nat) ≤ 10 ∧ ([1, 3] : Ranges) ≠ [] ∧
    (Tree.prePartialChunks ⟨20000, 1⟩ [1, 3] 0).isSome = true ∧
    (Tree.responseChunks ⟨20000, 1⟩ [1, 3]).isSome = true := by decide

/-! ## flags; every parent comes before its subtree -/

/-- the `left` / `right` flags of a parent item say which halves of `split(ranges, node)` are
non-empty -/
theorem flags (hs : size ≤ 2 ^ 63) (hbs : bs ≤ 10)
    (hp : Tree.prePartialChunks ⟨size, bs⟩ q ml = some p) {node : Nat} {ir lf rf : Bool}
    {rs : Ranges} (h : Chunk.parent node ir lf rf rs ∈ p) :
    lf = !(Ranges.splitNode rs node).1.isEmpty ∧ rf = !(Ranges.splitNode rs node).2.isEmpty := by
  rw [eq_plan hs hbs hp] at h
  exact plan_flags_item size bs ml q hs hbs h

/-- a parent item is immediately followed by the complete plan `A` of its left half and then the
complete plan `B` of its right half: `A` (`B`) is non-empty iff the left (right) flag is set,
all its leaves lie in the left (right) half of the parent's chunk range, and it hashes to
exactly one value (it consumes one expected hash, net, whatever follows) -/
theorem parent_before_subtree (hs : size ≤ 2 ^ 63) (hbs : bs ≤ 10)
    (hp : Tree.prePartialChunks ⟨size, bs⟩ q ml = some p) {pre tail : List Chunk}
    {node : Nat} {ir lf rf : Bool} {rs : Ranges}
    (h : p = pre ++ Chunk.parent node ir lf rf rs :: tail) :
    ∃ A B post, tail = A ++ B ++ post ∧ (A ≠ [] ↔ lf = true) ∧ (B ≠ [] ↔ rf = true) ∧
      SpansIn (Node.chunkRange node).1 (Node.mid node) (leafSpans A) ∧
      SpansIn (Node.mid node) (Node.chunkRange node).2 (leafSpans B) ∧
      (lf = true → ∀ h rest, stackRun (h + 1) (A ++ rest) = stackRun h rest) ∧
      (rf = true → ∀ h rest, stackRun (h + 1) (B ++ rest) = stackRun h rest) := by
  rw [eq_plan hs hbs hp] at h
  exact plan_parent_subtree size bs ml q hs hbs h

theorem parent_before_subtree_response (hs : size ≤ 2 ^ 63)
    (hp : Tree.responseChunks ⟨size, bs⟩ q = some p) {pre tail : List Chunk}
    {node : Nat} {ir lf rf : Bool} {rs : Ranges}
    (h : p = pre ++ Chunk.parent node ir lf rf rs :: tail) :
    ∃ A B post, tail = A ++ B ++ post ∧ (A ≠ [] ↔ lf = true) ∧ (B ≠ [] ↔ rf = true) ∧
      SpansIn (Node.chunkRange node).1 (Node.mid node) (leafSpans A) ∧
      SpansIn (Node.mid node) (Node.chunkRange node).2 (leafSpans B) ∧
      (lf = true → ∀ h rest, stackRun (h + 1) (A ++ rest) = stackRun h rest) ∧
      (rf = true → ∀ h rest, stackRun (h + 1) (B ++ rest) = stackRun h rest) := by
  rw [eq_plan_response hs hp] at h
  obtain ⟨pre0, tail0, rs0, h0, ht⟩ := parent_occ_withoutRanges h
  obtain ⟨A, B, post, e, hA, hB, sA, sB, rA, rB⟩ :=
    plan_parent_subtree size 0 bs q hs (by omega) h0
  refine ⟨A.map Chunk.withoutRanges, B.map Chunk.withoutRanges, post.map Chunk.withoutRanges,
    by rw [ht, e, List.map_append, List.map_append], ?_, ?_, ?_, ?_, ?_, ?_⟩
  · rw [← hA]; simp
  · rw [← hB]; simp
  · rw [leafSpans_withoutRanges]; exact sA
  · rw [leafSpans_withoutRanges]; exact sB
  · intro h1 h rest; rw [stackRun_append_withoutRanges]; exact rA h1 h rest
  · intro h1 h rest; rw [stackRun_append_withoutRanges]; exact rB h1 h rest

example : (20000 : Nat) ≤ 2 ^ 63 ∧ (1 : Nat) ≤ 10 ∧
    Tree.prePartialChunks ⟨20000, 1⟩ [1, 3] 0 = some
      ([.parent 15 true true false [1, 3], .parent 7 false true false [1, 3],
       .parent 3 false true false [1, 3]] ++ .parent 1 false true true [1, 3] ::
       [.leaf 0 2048 false [1], .leaf 2 2048 false [1, 3]]) := by decide

/-! ## leaves: increasing, disjoint, inside the blob -/

/-- the leaf spans are non-empty, pairwise non-overlapping in plan order
(`start_i + max 1 ⌈size_i/1024⌉ ≤ start_j` for `i < j`), hence the starts are strictly
increasing, and every leaf lies inside the blob -/
theorem leaves_increasing (hs : size ≤ 2 ^ 63) (hbs : bs ≤ 10)
    (hp : Tree.prePartialChunks ⟨size, bs⟩ q ml = some p) :
    (∀ a ∈ leafSpans p, a.1 < a.2) ∧
    (leafSpans p).Pairwise (fun a b => a.2 ≤ b.1) ∧
    (leafSpans p).Pairwise (fun a b => a.1 < b.1) ∧
    ∀ s z r x, Chunk.leaf s z r x ∈ p → toBytes s + z ≤ size := by
  rw [eq_plan hs hbs hp]
  have h := plan_spans size bs ml q hs hbs
  exact ⟨fun a ha => (h.1 a ha).2.1, h.2, spans_starts_increasing h,
    plan_leaf_in_blob size bs ml q hs hbs⟩

theorem leaves_increasing_response (hs : size ≤ 2 ^ 63)
    (hp : Tree.responseChunks ⟨size, bs⟩ q = some p) :
    (∀ a ∈ leafSpans p, a.1 < a.2) ∧
    (leafSpans p).Pairwise (fun a b => a.2 ≤ b.1) ∧
    (leafSpans p).Pairwise (fun a b => a.1 < b.1) ∧
    ∀ s z r x, Chunk.leaf s z r x ∈ p → toBytes s + z ≤ size := by
  rw [eq_plan_response hs hp, leafSpans_withoutRanges]
  have h := plan_spans size 0 bs q hs (by omega)
  refine ⟨fun a ha => (h.1 a ha).2.1, h.2, spans_starts_increasing h, ?_⟩
  intro s z r x hm
  obtain ⟨x', hx'⟩ := leaf_mem_withoutRanges hm
  exact plan_leaf_in_blob size 0 bs q hs (by omega) s z r x' hx'

example : (20000 : Nat) ≤ 2 ^ 63 ∧ (1 : Nat) ≤ 10 ∧
    (Tree.prePartialChunks ⟨20000, 1⟩ [1, 3] 0).isSome = true ∧
    (Tree.responseChunks ⟨20000, 1⟩ [1, 3]).isSome = true := by decide

/-! ## coverage -/

/-- every selected chunk is covered by a leaf -/
theorem coverage_complete (hs : size ≤ 2 ^ 63) (hbs : bs ≤ 10) (hwf : Ranges.WF q = true)
    (hp : Tree.prePartialChunks ⟨size, bs⟩ q ml = some p) {c : Nat}
    (hsel : Spec.selected size q c = true) : covered p c := by
  rw [eq_plan hs hbs hp]
  exact plan_cover_complete size bs ml hs hbs q hwf c hsel

/-- every leaf contains a selected chunk -/
theorem coverage_sound (hs : size ≤ 2 ^ 63) (hbs : bs ≤ 10) (hwf : Ranges.WF q = true)
    (hp : Tree.prePartialChunks ⟨size, bs⟩ q ml = some p) {s z : Nat} {r : Bool} {x : Ranges}
    (hm : Chunk.leaf s z r x ∈ p) :
    ∃ c, s ≤ c ∧ c < s + max 1 (chunksOf z) ∧ Spec.selected size q c = true := by
  rw [eq_plan hs hbs hp] at hm
  exact plan_cover_sound size bs ml hs hbs q hwf s z r x hm

example : (20000 : Nat) ≤ 2 ^ 63 ∧ (1 : Nat) ≤ 10 ∧ Ranges.WF [1, 3] = true ∧
    Spec.selected 20000 [1, 3] 2 = true ∧
    Tree.prePartialChunks ⟨20000, 1⟩ [1, 3] 0 = some
      [.parent 15 true true false [1, 3], .parent 7 false true false [1, 3],
       .parent 3 false true false [1, 3], .parent 1 false true true [1, 3],
       .leaf 0 2048 false [1], .leaf 2 2048 false [1, 3]] := by decide

/-- **group-exact coverage**, for every block size and every `min_full_level`: a chunk of the
blob is covered iff its chunk group contains a selected chunk — the leaves cover exactly the chunk
groups the selection touches -/
theorem coverage_groups (hs : size ≤ 2 ^ 63) (hbs : bs ≤ 10)
    (hwf : Ranges.WF q = true) (hp : Tree.prePartialChunks ⟨size, bs⟩ q ml = some p) {c : Nat}
    (hc : c < Spec.nChunks size) :
    covered p c ↔ ∃ x, x / 2 ^ bs = c / 2 ^ bs ∧ Spec.selected size q x = true := by
  rw [eq_plan hs hbs hp]
  exact plan_cover_groups_any size bs ml hs hbs q hwf c hc

example : (20000 : Nat) ≤ 2 ^ 63 ∧ (1 : Nat) ≤ 10 ∧ Ranges.WF [1, 3] = true ∧
    (3 : Nat) < Spec.nChunks 20000 ∧ (Tree.prePartialChunks ⟨20000, 1⟩ [1, 3] 0).isSome = true := by
  decide

/-- each leaf is a non-empty run of whole chunk groups clipped to the blob (`[s, min e' N)` with
`s`, `e'` multiples of the group size); a leaf whose ranges are not "all" is a single group -/
theorem leaf_groups (hs : size ≤ 2 ^ 63) (hbs : bs ≤ 10)
    (hp : Tree.prePartialChunks ⟨size, bs⟩ q ml = some p) {s z : Nat} {r : Bool} {x : Ranges}
    (hm : Chunk.leaf s z r x ∈ p) :
    s % 2 ^ bs = 0 ∧ ∃ e', e' % 2 ^ bs = 0 ∧ s < e' ∧
      s + max 1 (chunksOf z) = min e' (Spec.nChunks size) ∧
      (Ranges.isAll x = true ∨ e' = s + 2 ^ bs) := by
  rw [eq_plan hs hbs hp] at hm
  exact leaf_aligned_span (shifted_geo size bs hs hbs) _ _ _ s z r x hm

example : (20000 : Nat) ≤ 2 ^ 63 ∧ (1 : Nat) ≤ 10 ∧
    (Tree.prePartialChunks ⟨20000, 1⟩ [1, 3] 0).isSome = true := by decide

/-- every leaf whose attached ranges are "all" (in particular every query leaf) consists of
selected chunks only -/
theorem coverage_full_leaf (hs : size ≤ 2 ^ 63) (hbs : bs ≤ 10) (hwf : Ranges.WF q = true)
    (hp : Tree.prePartialChunks ⟨size, bs⟩ q ml = some p) {s z : Nat} {r : Bool} {x : Ranges}
    (hm : Chunk.leaf s z r x ∈ p) (hall : Ranges.isAll x = true) {c : Nat} (h1 : s ≤ c)
    (h2 : c < s + max 1 (chunksOf z)) : Spec.selected size q c = true := by
  rw [eq_plan hs hbs hp] at hm
  exact plan_all_leaf_selected size bs ml hs hbs q hwf s z r x hm hall c h1 h2

example : (20000 : Nat) ≤ 2 ^ 63 ∧ (1 : Nat) ≤ 10 ∧ Ranges.WF [0, 8] = true ∧
    Tree.prePartialChunks ⟨20000, 1⟩ [0, 8] 4 = some
      [.parent 15 true true false [0, 8], .parent 7 false true false [0, 8],
       .leaf 0 8192 false [0]] ∧ Ranges.isAll [0] = true := by decide

/-- **chunk-exact coverage** for block size 0 and any `min_full_level`: the leaves cover exactly
the selected chunks -/
theorem coverage_exact (hs : size ≤ 2 ^ 63) (hwf : Ranges.WF q = true)
    (hp : Tree.prePartialChunks ⟨size, 0⟩ q ml = some p) (c : Nat) :
    covered p c ↔ Spec.selected size q c = true := by
  rw [eq_plan hs (by omega) hp]
  exact plan_cover_exact size ml hs q hwf c

/-- **the response plan covers exactly the selected chunks**, whatever the block size (below
the block size the items go down to single chunks, unless a whole subtree is selected) -/
theorem coverage_exact_response (hs : size ≤ 2 ^ 63) (hwf : Ranges.WF q = true)
    (hp : Tree.responseChunks ⟨size, bs⟩ q = some p) (c : Nat) :
    covered p c ↔ Spec.selected size q c = true := by
  rw [eq_plan_response hs hp, covered_withoutRanges]
  exact plan_cover_exact size bs hs q hwf c

example : (20000 : Nat) ≤ 2 ^ 63 ∧ Ranges.WF [1, 3] = true ∧
    (Tree.prePartialChunks ⟨20000, 0⟩ [1, 3] 2).isSome = true ∧
    (Tree.responseChunks ⟨20000, 1⟩ [1, 3]).isSome = true ∧
    Spec.selected 20000 [1, 3] 2 = true ∧ Spec.selected 20000 [1, 3] 3 = false := by decide

/-
## Status (C15, pre-order half: `Tree.prePartialChunks`, `Tree.responseChunks`)

All theorems depend on the axioms `propext`, `Classical.choice`, `Quot.sound` only.

Proved (full strength, for all `size ≤ 2^63`, `bs ≤ 10`, every `ml` and — where a range-set
meaning is involved — every well-formed query):
  pre_refines, pre_refines_any_fuel, pre_total, response_refines, pre_empty
    (the explicit-stack iterator = the recursive plan `PlanPre.plan`; no panic branch reachable;
     `fuelFor` suffices; generalised over stack and buffer in `PlanPre.run_eq`),
  stack_discipline, stack_discipline_response,
  root_flag, root_flag_response,
  flags, parent_before_subtree, parent_before_subtree_response,
  leaves_increasing, leaves_increasing_response,
  coverage_complete, coverage_sound            (any bs, ml: selected ⊆ covered; every leaf touches
                                                the selection),
  coverage_groups                              (any bs, ml: covered = chunk groups touched, exact),
  leaf_groups                                  (every leaf = whole groups clipped to the blob; a
                                                leaf that is not "all" is one group),
  coverage_full_leaf                           (a leaf with ranges "all" is selected entirely),
  coverage_exact, coverage_exact_response      (bs = 0 / response plan: covered = selected, exact).

Partial: none.

OPEN: none for the pre-order half.  (The post-order plan `Tree.postOrderChunks` is the subject of
`Props/C15Post.lean`.)

Remarks on the model: none of the definitions in `BaoModel/Iter.lean` used here looked wrong.
`PrePartial.new` already contains the repair of defect D2 (empty query ⇒ empty stack); without it
`pre_empty`, `stack_discipline` (for q = []) and the `debug_assert!` freedom would fail.
The `u64 → usize` conversions `try_into().unwrap()` of the leaf sizes are not modelled
(`leaves_increasing` bounds every leaf size by the blob size).
-/

end Bao.C15
