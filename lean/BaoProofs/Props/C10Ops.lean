import BaoProofs.Lemmas.OpsFaultL

/-!
# C10 (outboard creation, copy, validators): io failures

"If the k-th operation on any underlying reader, writer, data source or outboard fails, the public
operation using it reports that failure - the io error itself [...] - never a panic, success or hash
mismatch, and it performs no further operation on the failed object.  Whatever was emitted or stored
before the failure is a prefix of what the fault-free run emits or stores."

This file treats `outboard_post_order`, `outboard` (and `init_from`), `copy`, `valid_ranges` and
`valid_outboard_ranges` (sync and fsm).  The fault-aware model functions are in `BaoModel/Fault.lean`:
`outboardPostOrderF`, `outboardF`, `initFromF`, `copyF`, `validRangesF`, `validOutboardRangesF`.
Each takes `fault : Option Fault` - `some ⟨obj, k, kind⟩`: the `k`-th call (0-based) on the object
`obj : FObj` (`.data` reader / data source, `.ob` outboard, `.w` writer, `.src` / `.dst` source and
target of `copy`) fails with the io error `⟨kind, true⟩` - and returns the log of the io calls it
makes (`List (FEv H)`, the failing call is logged and is the last entry) and the ordinary result.

Vocabulary (`BaoProofs/Lemmas/OpsFaultL.lean`):
* `FEv.obj e : Option FObj` – the object call `e` is made on (`none` for `.yield`, the pseudo entry
  the validators log for every range they hand to their consumer);
* `outOf log` – the bytes written by the `.write` calls of a log;
* `savedOf hf s log` – the store `s` after the `.save` calls of a log (a `save` that fails by itself
  leaves the store as it is); `savesOf log` – the `(node, l, r)`s offered to `save`;
* `yieldsOf log` – the ranges yielded in a log;
* `replay ap fault log st nd no nw ns nt` – replay a log against a fault: `nd no nw ns nt` are the
  numbers of calls made so far on `.data` / `.ob` / `.w` / `.src` / `.dst`; the first call whose
  object and counter are hit by the fault fails (it is logged, nothing follows), every other entry
  is applied to the state (`ap`: `apW` appends written bytes, `apS hf` applies a save, `apU` nothing)
  and bumps the counter of its object; result `(calls made, state, error of the failing call)`;
  `asmOb r res0` / `asm .err r t0` – the run assembled from a replay `r` (terminal: the error of the
  replay if it was cut, else the terminal of the fault-free run).

All statements are for every hash instance `hf`, data, store(s), tree, query, flavour and fault.
For each operation `X`:
* `X_none`: without a fault the twin is the fault-free model function;
* `X_sound`: the effect of the fault-free run is the effect of the calls of its log;
* `X_cut`: a reached fault (the fault-free log has a `(k+1)`-th call on `obj`): the fault-free log
  splits as `pre ++ e :: post`, `e` the `k`-th call on `obj`; the faulty run made exactly the calls
  `pre ++ [e]` (no further call on any object), ends with `.err ⟨kind, true⟩`, and its effect is the
  effect of `pre`;  `X_unreached`: otherwise the faulty run is the fault-free run;
* `X_counters`: every run is the replay of the fault-free log (ties "the `k`-th call" to the call
  counters threaded through the model functions);
* `X_prefix`, `X_never_ok`, `X_no_panic`.
-/

namespace Bao.C10

open Bao Bao.OpsFaultL

variable {H : Type}

/-! ## examples: a 1500-byte blob (two chunks, one parent) under a hash that accepts everything -/

/-- a hash instance under which every outboard is valid (all hashes are 0) -/
def opsTriv : HashFns Nat := ⟨fun _ _ _ => 0, fun _ _ _ => 0, fun _ => 0, fun _ => List.replicate 32 7⟩

def opsData : List UInt8 := List.replicate 1500 1

def opsTree : Tree := ⟨1500, 0⟩

/-- a zero-filled in-memory pre-order outboard for `opsTree` -/
def opsOb : Store Nat := ⟨.preMem, 0, opsTree, List.replicate 64 0⟩

/-- a zero-filled in-memory post-order outboard for `opsTree` -/
def opsObPost : Store Nat := ⟨.postMem, 0, opsTree, List.replicate 64 0⟩

/-- the decomposition of a log at the `k`-th call on `obj` (as in the `_cut` theorems) is unique -/
theorem opsF_cut_unique (obj : FObj) (k : Nat) (log pre pre' post post' : List (FEv H))
    (e e' : FEv H)
    (h : log = pre ++ e :: post) (he : e.obj = some obj)
    (hc : (pre.map FEv.obj).count (some obj) = k)
    (h' : log = pre' ++ e' :: post') (he' : e'.obj = some obj)
    (hc' : (pre'.map FEv.obj).count (some obj) = k) :
    pre = pre' ∧ e = e' ∧ post = post' :=
  decomp_unique obj k log pre pre' post post' e e' h he ((ncalls_eq_count obj pre).trans hc)
    h' he' ((ncalls_eq_count obj pre').trans hc')

example : ([FEv.read 3, .write [1], .read 4] : List (FEv Nat)) = [.read 3, .write [1]] ++ .read 4 :: [] ∧
    (FEv.read 4 : FEv Nat).obj = some .data ∧
    (([FEv.read 3, .write [1]] : List (FEv Nat)).map FEv.obj).count (some .data) = 1 := by decide

/-! ## `outboard_post_order` -/

/-- the log (io calls) of the fault-free run of `outboard_post_order` -/
def obpoLog (hf : HashFns H) (data : List UInt8) (tree : Tree) : List (FEv H) :=
  (outboardPostOrderF hf data tree none).1

/-- the fault-free run of the example: read, read, write left, write right; root `0`, 64 bytes -/
example : (obpoLog opsTriv opsData opsTree).map FEv.obj = [some .data, some .data, some .w, some .w] ∧
    obpoLog opsTriv opsData opsTree =
      [.read 1024, .read 476, .write (List.replicate 32 7), .write (List.replicate 32 7)] ∧
    (outboardPostOrderF opsTriv opsData opsTree none).2.res = .ok 0 ∧
    (outboardPostOrderF opsTriv opsData opsTree none).2.sink = List.replicate 64 7 := by
  decide +kernel

/-- with no fault the twin is `outboardPostOrder` (same result, same bytes written) -/
theorem obpoF_none (hf : HashFns H) (data : List UInt8) (tree : Tree) :
    (outboardPostOrderF hf data tree none).2 = outboardPostOrder hf data tree :=
  obpoLoop_none ..

/-- the fault-free run performs every call of its log: the bytes written are those of the logged
writes -/
theorem obpoF_sound (hf : HashFns H) (data : List UInt8) (tree : Tree) :
    (outboardPostOrder hf data tree).sink = outOf (obpoLog hf data tree) := by
  rw [← obpoF_none, ob_sound apW [] _ (obpo_replay hf data tree), foldl_apW]
  rfl

/-- the fault is reached: the faulty run is the fault-free run cut right after the failing call `e`;
it made the calls `pre ++ [e]` and no other, ends with the injected io error, and wrote exactly the
bytes written before `e` (a parent is TWO writes: a fault on the second one leaves the left hash
written) -/
theorem obpoF_cut (hf : HashFns H) (data : List UInt8) (tree : Tree) (obj : FObj) (k : Nat)
    (kind : IoKind) (hk : k < ((obpoLog hf data tree).map FEv.obj).count (some obj)) :
    ∃ pre e post, obpoLog hf data tree = pre ++ e :: post ∧ e.obj = some obj ∧
      (pre.map FEv.obj).count (some obj) = k ∧
      outboardPostOrderF hf data tree (some ⟨obj, k, kind⟩) =
        (pre ++ [e], ⟨.err ⟨kind, true⟩, outOf pre⟩) := by
  obtain ⟨pre, e, post, h1, h2, h3, h4⟩ := ob_cut apW [] _ (obpo_replay hf data tree) obj k kind hk
  rw [foldl_apW] at h4
  exact ⟨pre, e, post, h1, h2, h3, h4⟩

/-- the fault is not reached (the fault-free log has at most `k` calls on `obj`): same run -/
theorem obpoF_unreached (hf : HashFns H) (data : List UInt8) (tree : Tree) (obj : FObj) (k : Nat)
    (kind : IoKind) (hk : ((obpoLog hf data tree).map FEv.obj).count (some obj) ≤ k) :
    outboardPostOrderF hf data tree (some ⟨obj, k, kind⟩) = outboardPostOrderF hf data tree none :=
  ob_unreached apW [] _ (obpo_replay hf data tree) obj k kind hk

/-- the log is consistent with the loop counters: every run - faulty or not - is the replay of the
fault-free log in which the counters of `outboardPostOrderLoopF` start at 0 and go up by one at each
entry on their object, and the first entry whose counter is hit by the fault fails -/
theorem obpoF_counters (hf : HashFns H) (data : List UInt8) (tree : Tree) (fault : Option Fault) :
    outboardPostOrderF hf data tree fault =
      asmOb (replay apW fault (obpoLog hf data tree) [] 0 0 0 0 0)
        (outboardPostOrderF hf data tree none).2.res :=
  obpoLoop_replay ..

example : (1 : Nat) < ((obpoLog opsTriv opsData opsTree).map FEv.obj).count (some .w) ∧
    ((obpoLog opsTriv opsData opsTree).map FEv.obj).count (some .data) ≤ 2 := by decide +kernel

/-- the example: the second write (right hash of the parent) fails: the left hash stays written -/
example : (outboardPostOrderF opsTriv opsData opsTree (some ⟨.w, 1, .other⟩)).1.map FEv.obj =
      [some .data, some .data, some .w, some .w] ∧
    (outboardPostOrderF opsTriv opsData opsTree (some ⟨.w, 1, .other⟩)).2.res = .err ⟨.other, true⟩ ∧
    (outboardPostOrderF opsTriv opsData opsTree (some ⟨.w, 1, .other⟩)).2.sink = List.replicate 32 7 := by
  decide +kernel

/-- for every fault: the calls made and the bytes written are prefixes of the fault-free ones -/
theorem obpoF_prefix (hf : HashFns H) (data : List UInt8) (tree : Tree) (fault : Option Fault) :
    (outboardPostOrderF hf data tree fault).1 <+: obpoLog hf data tree ∧
    (outboardPostOrderF hf data tree fault).2.sink <+:
      (outboardPostOrderF hf data tree none).2.sink := by
  obtain ⟨h1, pre, rest, _, h3, h4⟩ := ob_prefix apW [] _ (obpo_replay hf data tree) fault
  refine ⟨h1, ?_⟩
  rw [h4, foldl_apW]
  exact List.prefix_append _ _

/-- a reached fault is reported as the injected io error: never `ok`, never a panic -/
theorem obpoF_never_ok (hf : HashFns H) (data : List UInt8) (tree : Tree) (obj : FObj) (k : Nat)
    (kind : IoKind) (hk : k < ((obpoLog hf data tree).map FEv.obj).count (some obj)) :
    (outboardPostOrderF hf data tree (some ⟨obj, k, kind⟩)).2.res = .err ⟨kind, true⟩ :=
  ob_never_ok apW [] _ (obpo_replay hf data tree) obj k kind hk

/-- no fault turns into a panic -/
theorem obpoF_no_panic (hf : HashFns H) (data : List UInt8) (tree : Tree) (fault : Option Fault)
    (h : (outboardPostOrderF hf data tree none).2.res ≠ .panic) :
    (outboardPostOrderF hf data tree fault).2.res ≠ .panic :=
  ob_no_panic apW [] _ (obpo_replay hf data tree) fault h

example : (outboardPostOrderF opsTriv opsData opsTree none).2.res ≠ .panic := by decide +kernel

/-! ## `outboard`, `init_from` -/

/-- the log (io calls) of the fault-free run of `outboard` -/
def obLog (hf : HashFns H) (data : List UInt8) (tree : Tree) (ob : Store H) : List (FEv H) :=
  (outboardF hf data tree ob none).1

/-- the fault-free run of the example: read, read, save node 0 -/
example : obLog opsTriv opsData opsTree opsOb = [.read 1024, .read 476, .save .ob 0 0 0] ∧
    (outboardF opsTriv opsData opsTree opsOb none).2.res = .ok 0 ∧
    (outboardF opsTriv opsData opsTree opsOb none).2.sink.data = List.replicate 64 7 := by
  decide +kernel

/-- with no fault the twin is `outboard` (same result, same store) -/
theorem obF_none (hf : HashFns H) (data : List UInt8) (tree : Tree) (ob : Store H) :
    (outboardF hf data tree ob none).2 = outboard hf data tree ob :=
  obLoop_none ..

/-- the fault-free run performs every call of its log: the store is the initial store after the
logged saves -/
theorem obF_sound (hf : HashFns H) (data : List UInt8) (tree : Tree) (ob : Store H) :
    (outboard hf data tree ob).sink = savedOf hf ob (obLog hf data tree ob) := by
  rw [← obF_none, ob_sound (apS hf) ob _ (ob_replay hf data tree ob)]
  rfl

/-- the fault is reached: the faulty run is the fault-free run cut right after the failing call `e`;
it made the calls `pre ++ [e]` and no other, ends with the injected io error, and the saves applied
to the outboard are exactly the saves before `e` -/
theorem obF_cut (hf : HashFns H) (data : List UInt8) (tree : Tree) (ob : Store H) (obj : FObj)
    (k : Nat) (kind : IoKind) (hk : k < ((obLog hf data tree ob).map FEv.obj).count (some obj)) :
    ∃ pre e post, obLog hf data tree ob = pre ++ e :: post ∧ e.obj = some obj ∧
      (pre.map FEv.obj).count (some obj) = k ∧
      outboardF hf data tree ob (some ⟨obj, k, kind⟩) =
        (pre ++ [e], ⟨.err ⟨kind, true⟩, savedOf hf ob pre⟩) :=
  ob_cut (apS hf) ob _ (ob_replay hf data tree ob) obj k kind hk

/-- the fault is not reached: same run -/
theorem obF_unreached (hf : HashFns H) (data : List UInt8) (tree : Tree) (ob : Store H)
    (obj : FObj) (k : Nat) (kind : IoKind)
    (hk : ((obLog hf data tree ob).map FEv.obj).count (some obj) ≤ k) :
    outboardF hf data tree ob (some ⟨obj, k, kind⟩) = outboardF hf data tree ob none :=
  ob_unreached (apS hf) ob _ (ob_replay hf data tree ob) obj k kind hk

/-- every run - faulty or not - is the replay of the fault-free log against the fault, counters
starting at 0 -/
theorem obF_counters (hf : HashFns H) (data : List UInt8) (tree : Tree) (ob : Store H)
    (fault : Option Fault) :
    outboardF hf data tree ob fault =
      asmOb (replay (apS hf) fault (obLog hf data tree ob) ob 0 0 0 0 0)
        (outboardF hf data tree ob none).2.res :=
  obLoop_replay ..

example : (0 : Nat) < ((obLog opsTriv opsData opsTree opsOb).map FEv.obj).count (some .ob) ∧
    ((obLog opsTriv opsData opsTree opsOb).map FEv.obj).count (some .ob) ≤ 1 := by decide +kernel

/-- the example: the save fails: nothing is stored -/
example : (outboardF opsTriv opsData opsTree opsOb (some ⟨.ob, 0, .writeZero⟩)).1 =
      [.read 1024, .read 476, .save .ob 0 0 0] ∧
    (outboardF opsTriv opsData opsTree opsOb (some ⟨.ob, 0, .writeZero⟩)).2.res =
      .err ⟨.writeZero, true⟩ ∧
    (outboardF opsTriv opsData opsTree opsOb (some ⟨.ob, 0, .writeZero⟩)).2.sink.data =
      List.replicate 64 0 := by
  decide +kernel

/-- for every fault: the calls made are a prefix of the fault-free calls; the saves applied are
those of a prefix `pre` of the fault-free log, and the fault-free store is the faulty one after the
remaining saves -/
theorem obF_prefix (hf : HashFns H) (data : List UInt8) (tree : Tree) (ob : Store H)
    (fault : Option Fault) :
    (outboardF hf data tree ob fault).1 <+: obLog hf data tree ob ∧
    ∃ pre rest, obLog hf data tree ob = pre ++ rest ∧ savesOf pre <+: savesOf (obLog hf data tree ob) ∧
      (outboardF hf data tree ob fault).2.sink = savedOf hf ob pre ∧
      (outboardF hf data tree ob none).2.sink =
        savedOf hf (outboardF hf data tree ob fault).2.sink rest := by
  obtain ⟨h1, pre, rest, h2, h3, h4⟩ := ob_prefix (apS hf) ob _ (ob_replay hf data tree ob) fault
  refine ⟨h1, pre, rest, h2, ?_, h3, h4⟩
  show savesOf pre <+: savesOf (outboardF hf data tree ob none).1
  rw [h2, savesOf_append]
  exact List.prefix_append _ _

/-- a reached fault is reported as the injected io error: never `ok`, never a panic -/
theorem obF_never_ok (hf : HashFns H) (data : List UInt8) (tree : Tree) (ob : Store H) (obj : FObj)
    (k : Nat) (kind : IoKind) (hk : k < ((obLog hf data tree ob).map FEv.obj).count (some obj)) :
    (outboardF hf data tree ob (some ⟨obj, k, kind⟩)).2.res = .err ⟨kind, true⟩ :=
  ob_never_ok (apS hf) ob _ (ob_replay hf data tree ob) obj k kind hk

/-- no fault turns into a panic -/
theorem obF_no_panic (hf : HashFns H) (data : List UInt8) (tree : Tree) (ob : Store H)
    (fault : Option Fault) (h : (outboardF hf data tree ob none).2.res ≠ .panic) :
    (outboardF hf data tree ob fault).2.res ≠ .panic :=
  ob_no_panic (apS hf) ob _ (ob_replay hf data tree ob) fault h

example : (outboardF opsTriv opsData opsTree opsOb none).2.res ≠ .panic := by decide +kernel

/-- `init_from`: with no fault the twin is `initFrom` -/
theorem initFromF_none (hf : HashFns H) (data : List UInt8) (ob : Store H) :
    (initFromF hf data ob none).2.1 = initFrom hf data ob := by
  unfold initFromF initFrom
  rw [← obF_none]
  rcases outboardF hf data ob.tree ob none with ⟨log, ⟨(root | e | _), ob'⟩⟩ <;> rfl

/-- `init_from` with a reached fault: the calls `pre ++ [e]`, the injected error, and the store is
left with the saves before `e` (its root is not touched) -/
theorem initFromF_cut (hf : HashFns H) (data : List UInt8) (ob : Store H) (obj : FObj)
    (k : Nat) (kind : IoKind) (hk : k < ((obLog hf data ob.tree ob).map FEv.obj).count (some obj)) :
    ∃ pre e post, obLog hf data ob.tree ob = pre ++ e :: post ∧ e.obj = some obj ∧
      (pre.map FEv.obj).count (some obj) = k ∧
      initFromF hf data ob (some ⟨obj, k, kind⟩) =
        (pre ++ [e], .err ⟨kind, true⟩, savedOf hf ob pre) := by
  obtain ⟨pre, e, post, h1, h2, h3, h4⟩ := obF_cut hf data ob.tree ob obj k kind hk
  refine ⟨pre, e, post, h1, h2, h3, ?_⟩
  unfold initFromF
  rw [h4]

example : (0 : Nat) < ((obLog opsTriv opsData opsOb.tree opsOb).map FEv.obj).count (some .ob) := by
  decide +kernel

/-! ## `copy` -/

/-- the log (io calls) of the fault-free run of `copy` -/
def copyLog (hf : HashFns H) (fl : Flavour) (src dst : Store H) : List (FEv H) :=
  (copyF hf fl src dst none).1

/-- the fault-free run of the example (pre-order into post-order): load node 0, save node 0 -/
example : copyLog opsTriv .sync opsOb opsObPost = [.load .src 0, .save .dst 0 0 0] ∧
    (copyF opsTriv .sync opsOb opsObPost none).2.res = .ok () ∧
    (copyF opsTriv .sync opsOb opsObPost none).2.sink.data = List.replicate 64 7 := by
  decide +kernel

/-- with no fault the twin is `copy` -/
theorem copyF_none (hf : HashFns H) (fl : Flavour) (src dst : Store H) :
    (copyF hf fl src dst none).2.toRes = copy hf fl src dst :=
  copyLoop_none ..

/-- the fault-free run performs every call of its log: the target is the initial target after the
logged saves -/
theorem copyF_sound (hf : HashFns H) (fl : Flavour) (src dst : Store H) :
    (copyF hf fl src dst none).2.sink = savedOf hf dst (copyLog hf fl src dst) :=
  ob_sound (apS hf) dst _ (copy_replay hf fl src dst)

/-- the fault is reached: the faulty run is the fault-free run cut right after the failing call `e`
(a `load` on the source or a `save` on the target); it made the calls `pre ++ [e]` and no other, ends
with the injected io error, and the saves applied to the target are exactly the saves before `e` -/
theorem copyF_cut (hf : HashFns H) (fl : Flavour) (src dst : Store H) (obj : FObj) (k : Nat)
    (kind : IoKind) (hk : k < ((copyLog hf fl src dst).map FEv.obj).count (some obj)) :
    ∃ pre e post, copyLog hf fl src dst = pre ++ e :: post ∧ e.obj = some obj ∧
      (pre.map FEv.obj).count (some obj) = k ∧
      copyF hf fl src dst (some ⟨obj, k, kind⟩) =
        (pre ++ [e], ⟨.err ⟨kind, true⟩, savedOf hf dst pre⟩) :=
  ob_cut (apS hf) dst _ (copy_replay hf fl src dst) obj k kind hk

/-- the fault is not reached: same run -/
theorem copyF_unreached (hf : HashFns H) (fl : Flavour) (src dst : Store H) (obj : FObj) (k : Nat)
    (kind : IoKind) (hk : ((copyLog hf fl src dst).map FEv.obj).count (some obj) ≤ k) :
    copyF hf fl src dst (some ⟨obj, k, kind⟩) = copyF hf fl src dst none :=
  ob_unreached (apS hf) dst _ (copy_replay hf fl src dst) obj k kind hk

/-- every run - faulty or not - is the replay of the fault-free log against the fault, counters
starting at 0 -/
theorem copyF_counters (hf : HashFns H) (fl : Flavour) (src dst : Store H) (fault : Option Fault) :
    copyF hf fl src dst fault =
      asmOb (replay (apS hf) fault (copyLog hf fl src dst) dst 0 0 0 0 0)
        (copyF hf fl src dst none).2.res :=
  copyLoop_replay ..

example : (0 : Nat) < ((copyLog opsTriv .sync opsOb opsObPost).map FEv.obj).count (some .dst) ∧
    ((copyLog opsTriv .sync opsOb opsObPost).map FEv.obj).count (some .src) ≤ 1 := by
  decide +kernel

/-- the example: the save on the target fails: the target is unchanged, `copy` returns the error -/
example : (copyF opsTriv .fsm opsOb opsObPost (some ⟨.dst, 0, .other⟩)).1 =
      [.load .src 0, .save .dst 0 0 0] ∧
    (copyF opsTriv .fsm opsOb opsObPost (some ⟨.dst, 0, .other⟩)).2.res = .err ⟨.other, true⟩ ∧
    (copyF opsTriv .fsm opsOb opsObPost (some ⟨.dst, 0, .other⟩)).2.sink.data =
      List.replicate 64 0 := by
  decide +kernel

/-- for every fault: the calls made are a prefix of the fault-free calls; the saves applied to the
target are those of a prefix `pre` of the fault-free log, and the fault-free target is the faulty
one after the remaining saves -/
theorem copyF_prefix (hf : HashFns H) (fl : Flavour) (src dst : Store H) (fault : Option Fault) :
    (copyF hf fl src dst fault).1 <+: copyLog hf fl src dst ∧
    ∃ pre rest, copyLog hf fl src dst = pre ++ rest ∧ savesOf pre <+: savesOf (copyLog hf fl src dst) ∧
      (copyF hf fl src dst fault).2.sink = savedOf hf dst pre ∧
      (copyF hf fl src dst none).2.sink = savedOf hf (copyF hf fl src dst fault).2.sink rest := by
  obtain ⟨h1, pre, rest, h2, h3, h4⟩ := ob_prefix (apS hf) dst _ (copy_replay hf fl src dst) fault
  refine ⟨h1, pre, rest, h2, ?_, h3, h4⟩
  show savesOf pre <+: savesOf (copyF hf fl src dst none).1
  rw [h2, savesOf_append]
  exact List.prefix_append _ _

/-- a reached fault is reported as the injected io error: `copy` returns `Err`, never `Ok`, never
panics -/
theorem copyF_never_ok (hf : HashFns H) (fl : Flavour) (src dst : Store H) (obj : FObj) (k : Nat)
    (kind : IoKind) (hk : k < ((copyLog hf fl src dst).map FEv.obj).count (some obj)) :
    (copyF hf fl src dst (some ⟨obj, k, kind⟩)).2.res = .err ⟨kind, true⟩ ∧
    (copyF hf fl src dst (some ⟨obj, k, kind⟩)).2.toRes = .err ⟨kind, true⟩ := by
  have h := ob_never_ok (apS hf) dst _ (copy_replay hf fl src dst) obj k kind hk
  refine ⟨h, ?_⟩
  unfold ObRun.toRes
  rw [h]

/-- no fault turns into a panic -/
theorem copyF_no_panic (hf : HashFns H) (fl : Flavour) (src dst : Store H) (fault : Option Fault)
    (h : (copyF hf fl src dst none).2.res ≠ .panic) :
    (copyF hf fl src dst fault).2.res ≠ .panic :=
  ob_no_panic (apS hf) dst _ (copy_replay hf fl src dst) fault h

example : (copyF opsTriv .sync opsOb opsObPost none).2.res ≠ .panic := by decide +kernel

/-! ## `valid_ranges` -/

/-- the log (io calls and yields) of the fault-free run of `valid_ranges` -/
def validLog (hf : HashFns H) [BEq H] (fl : Flavour) (ob : Store H) (data : List UInt8)
    (q : Ranges) : List (FEv H) :=
  (validRangesF hf fl ob data q none).1

/-- the fault-free run of the example: load node 0, then read / yield each chunk -/
example : validLog opsTriv .sync opsOb opsData [0] =
      [.load .ob 0, .readAt 0 1024, .yield 0 1, .readAt 1024 476, .yield 1 2] ∧
    (validRangesF opsTriv .sync opsOb opsData [0] none).2 = ⟨[(0, 1), (1, 2)], .ok⟩ := by
  decide +kernel

/-- with no fault the twin is `validRanges` (same yields, same terminal) -/
theorem validF_none (hf : HashFns H) [BEq H] (fl : Flavour) (ob : Store H) (data : List UInt8)
    (q : Ranges) :
    (validRangesF hf fl ob data q none).2 = validRanges hf fl ob data q :=
  validRangesF_none_run ..

/-- every run - faulty or not - yields exactly the ranges logged as yielded -/
theorem validF_sound (hf : HashFns H) [BEq H] (fl : Flavour) (ob : Store H) (data : List UInt8)
    (q : Ranges) (fault : Option Fault) :
    (validRangesF hf fl ob data q fault).2.yields = yieldsOf (validRangesF hf fl ob data q fault).1 :=
  validRanges_yields ..

/-- the fault is reached: the faulty run is the fault-free run cut right after the failing call `e`
(a `load` on the outboard or a positional read on the data): it made the calls `pre ++ [e]` and no
other, it yields the ranges yielded before `e` and then the injected io error as its LAST item -/
theorem validF_cut (hf : HashFns H) [BEq H] (fl : Flavour) (ob : Store H) (data : List UInt8)
    (q : Ranges) (obj : FObj) (k : Nat) (kind : IoKind)
    (hk : k < ((validLog hf fl ob data q).map FEv.obj).count (some obj)) :
    ∃ pre e post, validLog hf fl ob data q = pre ++ e :: post ∧ e.obj = some obj ∧
      (pre.map FEv.obj).count (some obj) = k ∧
      validRangesF hf fl ob data q (some ⟨obj, k, kind⟩) =
        (pre ++ [e], ⟨yieldsOf pre, .err ⟨kind, true⟩⟩) :=
  val_cut _ (validRanges_replay hf fl ob data q) (validRanges_yields hf fl ob data q) obj k kind hk

/-- the fault is not reached: same run -/
theorem validF_unreached (hf : HashFns H) [BEq H] (fl : Flavour) (ob : Store H)
    (data : List UInt8) (q : Ranges) (obj : FObj) (k : Nat) (kind : IoKind)
    (hk : ((validLog hf fl ob data q).map FEv.obj).count (some obj) ≤ k) :
    validRangesF hf fl ob data q (some ⟨obj, k, kind⟩) = validRangesF hf fl ob data q none :=
  val_unreached _ (validRanges_replay hf fl ob data q) (validRanges_yields hf fl ob data q)
    obj k kind hk

/-- every run - faulty or not - is the replay of the fault-free log against the fault, counters
starting at 0: same calls, and the terminal is the injected error if the replay is cut, that of the
fault-free run otherwise (`viewV r = (log, (), terminal)`) -/
theorem validF_counters (hf : HashFns H) [BEq H] (fl : Flavour) (ob : Store H) (data : List UInt8)
    (q : Ranges) (fault : Option Fault) :
    viewV (validRangesF hf fl ob data q fault) =
      asm ValEnd.err (replay apU fault (validLog hf fl ob data q) () 0 0 0 0 0)
        (validRangesF hf fl ob data q none).2.terminal :=
  validRanges_replay ..

example : (1 : Nat) < ((validLog opsTriv .sync opsOb opsData [0]).map FEv.obj).count (some .data) ∧
    ((validLog opsTriv .sync opsOb opsData [0]).map FEv.obj).count (some .ob) ≤ 1 := by
  decide +kernel

/-- the example: the second read fails: the first range, then the error -/
example : validRangesF opsTriv .fsm opsOb opsData [0] (some ⟨.data, 1, .unexpectedEof⟩) =
    ([.load .ob 0, .readAt 0 1024, .yield 0 1, .readAt 1024 476],
      ⟨[(0, 1)], .err ⟨.unexpectedEof, true⟩⟩) := by
  decide +kernel

/-- for every fault: the calls made and the ranges yielded are prefixes of the fault-free ones -/
theorem validF_prefix (hf : HashFns H) [BEq H] (fl : Flavour) (ob : Store H) (data : List UInt8)
    (q : Ranges) (fault : Option Fault) :
    (validRangesF hf fl ob data q fault).1 <+: validLog hf fl ob data q ∧
    (validRangesF hf fl ob data q fault).2.yields <+: (validRangesF hf fl ob data q none).2.yields :=
  val_prefix _ (validRanges_replay hf fl ob data q) (validRanges_yields hf fl ob data q) fault

/-- a reached fault is reported as the injected io error (the last item of the validator): the run
does not end `ok`, does not panic, and yields no range after the error -/
theorem validF_never_ok (hf : HashFns H) [BEq H] (fl : Flavour) (ob : Store H) (data : List UInt8)
    (q : Ranges) (obj : FObj) (k : Nat) (kind : IoKind)
    (hk : k < ((validLog hf fl ob data q).map FEv.obj).count (some obj)) :
    (validRangesF hf fl ob data q (some ⟨obj, k, kind⟩)).2.terminal = .err ⟨kind, true⟩ :=
  val_never_ok _ (validRanges_replay hf fl ob data q) (validRanges_yields hf fl ob data q)
    obj k kind hk

/-- no fault turns into a panic -/
theorem validF_no_panic (hf : HashFns H) [BEq H] (fl : Flavour) (ob : Store H) (data : List UInt8)
    (q : Ranges) (fault : Option Fault)
    (h : (validRangesF hf fl ob data q none).2.terminal ≠ .panic) :
    (validRangesF hf fl ob data q fault).2.terminal ≠ .panic :=
  val_no_panic _ (validRanges_replay hf fl ob data q) (validRanges_yields hf fl ob data q) fault h

example : (validRangesF opsTriv .sync opsOb opsData [0] none).2.terminal ≠ .panic := by
  decide +kernel

/-! ## `valid_outboard_ranges` -/

/-- the log (io calls and yields) of the fault-free run of `valid_outboard_ranges` -/
def validObLog (hf : HashFns H) [BEq H] (fl : Flavour) (ob : Store H) (q : Ranges) : List (FEv H) :=
  (validOutboardRangesF hf fl ob q none).1

/-- the fault-free run of the example: load node 0, yield both chunks -/
example : validObLog opsTriv .sync opsOb [0] = [.load .ob 0, .yield 0 1, .yield 1 2] ∧
    (validOutboardRangesF opsTriv .sync opsOb [0] none).2 = ⟨[(0, 1), (1, 2)], .ok⟩ := by
  decide +kernel

/-- with no fault the twin is `validOutboardRanges` -/
theorem validObF_none (hf : HashFns H) [BEq H] (fl : Flavour) (ob : Store H) (q : Ranges) :
    (validOutboardRangesF hf fl ob q none).2 = validOutboardRanges hf fl ob q :=
  validObF_none_run ..

/-- every run - faulty or not - yields exactly the ranges logged as yielded -/
theorem validObF_sound (hf : HashFns H) [BEq H] (fl : Flavour) (ob : Store H) (q : Ranges)
    (fault : Option Fault) :
    (validOutboardRangesF hf fl ob q fault).2.yields =
      yieldsOf (validOutboardRangesF hf fl ob q fault).1 :=
  validOb_yields ..

/-- the fault is reached: the faulty run is the fault-free run cut right after the failing `load`:
it made the calls `pre ++ [e]` and no other, it yields the ranges yielded before `e` and then the
injected io error as its LAST item -/
theorem validObF_cut (hf : HashFns H) [BEq H] (fl : Flavour) (ob : Store H) (q : Ranges)
    (obj : FObj) (k : Nat) (kind : IoKind)
    (hk : k < ((validObLog hf fl ob q).map FEv.obj).count (some obj)) :
    ∃ pre e post, validObLog hf fl ob q = pre ++ e :: post ∧ e.obj = some obj ∧
      (pre.map FEv.obj).count (some obj) = k ∧
      validOutboardRangesF hf fl ob q (some ⟨obj, k, kind⟩) =
        (pre ++ [e], ⟨yieldsOf pre, .err ⟨kind, true⟩⟩) :=
  val_cut _ (validOb_replay hf fl ob q) (validOb_yields hf fl ob q) obj k kind hk

/-- the fault is not reached: same run -/
theorem validObF_unreached (hf : HashFns H) [BEq H] (fl : Flavour) (ob : Store H) (q : Ranges)
    (obj : FObj) (k : Nat) (kind : IoKind)
    (hk : ((validObLog hf fl ob q).map FEv.obj).count (some obj) ≤ k) :
    validOutboardRangesF hf fl ob q (some ⟨obj, k, kind⟩) = validOutboardRangesF hf fl ob q none :=
  val_unreached _ (validOb_replay hf fl ob q) (validOb_yields hf fl ob q) obj k kind hk

/-- every run - faulty or not - is the replay of the fault-free log against the fault -/
theorem validObF_counters (hf : HashFns H) [BEq H] (fl : Flavour) (ob : Store H) (q : Ranges)
    (fault : Option Fault) :
    viewV (validOutboardRangesF hf fl ob q fault) =
      asm ValEnd.err (replay apU fault (validObLog hf fl ob q) () 0 0 0 0 0)
        (validOutboardRangesF hf fl ob q none).2.terminal :=
  validOb_replay ..

example : (0 : Nat) < ((validObLog opsTriv .sync opsOb [0]).map FEv.obj).count (some .ob) ∧
    ((validObLog opsTriv .sync opsOb [0]).map FEv.obj).count (some .data) ≤ 0 := by
  decide +kernel

/-- the example: the load fails: no range, the error -/
example : validOutboardRangesF opsTriv .sync opsOb [0] (some ⟨.ob, 0, .other⟩) =
    ([.load .ob 0], ⟨[], .err ⟨.other, true⟩⟩) := by
  decide +kernel

/-- for every fault: the calls made and the ranges yielded are prefixes of the fault-free ones -/
theorem validObF_prefix (hf : HashFns H) [BEq H] (fl : Flavour) (ob : Store H) (q : Ranges)
    (fault : Option Fault) :
    (validOutboardRangesF hf fl ob q fault).1 <+: validObLog hf fl ob q ∧
    (validOutboardRangesF hf fl ob q fault).2.yields <+:
      (validOutboardRangesF hf fl ob q none).2.yields :=
  val_prefix _ (validOb_replay hf fl ob q) (validOb_yields hf fl ob q) fault

/-- a reached fault is reported as the injected io error (the last item of the validator) -/
theorem validObF_never_ok (hf : HashFns H) [BEq H] (fl : Flavour) (ob : Store H) (q : Ranges)
    (obj : FObj) (k : Nat) (kind : IoKind)
    (hk : k < ((validObLog hf fl ob q).map FEv.obj).count (some obj)) :
    (validOutboardRangesF hf fl ob q (some ⟨obj, k, kind⟩)).2.terminal = .err ⟨kind, true⟩ :=
  val_never_ok _ (validOb_replay hf fl ob q) (validOb_yields hf fl ob q) obj k kind hk

/-- no fault turns into a panic -/
theorem validObF_no_panic (hf : HashFns H) [BEq H] (fl : Flavour) (ob : Store H) (q : Ranges)
    (fault : Option Fault) (h : (validOutboardRangesF hf fl ob q none).2.terminal ≠ .panic) :
    (validOutboardRangesF hf fl ob q fault).2.terminal ≠ .panic :=
  val_no_panic _ (validOb_replay hf fl ob q) (validOb_yields hf fl ob q) fault h

example : (validOutboardRangesF opsTriv .sync opsOb [0] none).2.terminal ≠ .panic := by
  decide +kernel

/-!
## Status (C10: `outboard_post_order`, `outboard` / `init_from`, `copy`, `valid_ranges`,
`valid_outboard_ranges`; sync and fsm)

PROVED, for every `hf`, data, tree, store(s), flavour, query and fault:
* `opsF_cut_unique` – the decomposition `log = pre ++ e :: post` used by the `_cut` theorems is unique;
* `outboard_post_order` (`outboardPostOrderF`): `obpoF_none`, `obpoF_sound`, `obpoF_counters`,
  `obpoF_cut` (fault reached, `k < count (some obj) log`: log = `pre ++ e :: post`, `e` the `k`-th call
  on `obj`; run = `(pre ++ [e], ⟨.err ⟨kind, true⟩, outOf pre⟩)`), `obpoF_unreached`
  (`count ≤ k`: same run), `obpoF_prefix`, `obpoF_never_ok`, `obpoF_no_panic`;
* `outboard` (`outboardF`): `obF_none`, `obF_sound`, `obF_counters`, `obF_cut` (run =
  `(pre ++ [e], ⟨.err ⟨kind, true⟩, savedOf hf ob pre⟩)`), `obF_unreached`, `obF_prefix`,
  `obF_never_ok`, `obF_no_panic`; `init_from` (`initFromF`): `initFromF_none`, `initFromF_cut`;
* `copy` (`copyF`): `copyF_none`, `copyF_sound`, `copyF_counters`, `copyF_cut` (run =
  `(pre ++ [e], ⟨.err ⟨kind, true⟩, savedOf hf dst pre⟩)`), `copyF_unreached`, `copyF_prefix`,
  `copyF_never_ok`, `copyF_no_panic`;
* `valid_ranges` (`validRangesF`): `validF_none`, `validF_sound`, `validF_counters`, `validF_cut`
  (run = `(pre ++ [e], ⟨yieldsOf pre, .err ⟨kind, true⟩⟩)`: the ranges yielded before the failing call,
  then the error as the last item), `validF_unreached`, `validF_prefix`, `validF_never_ok`,
  `validF_no_panic`;
* `valid_outboard_ranges` (`validOutboardRangesF`): `validObF_none`, `validObF_sound`,
  `validObF_counters`, `validObF_cut`, `validObF_unreached`, `validObF_prefix`, `validObF_never_ok`,
  `validObF_no_panic`.

PARTIAL: none.   OPEN: none.

"no further operation on the failed object": the own log of a faulty run is `pre ++ [e]`, the failing
call is its last entry, so there is no later call on any object; for the validators no range is
yielded after it either (yields are log entries).

"never a hash mismatch": these operations have no hash-mismatch outcome (`Res IoErr _` / `ValEnd`).

model remarks:
* granularity: a call is one `read_exact` / `read_bytes_exact` / `read_exact_at` / `write_all` /
  `write` / `load` / `save`; a zero-length read (the single leaf of the empty blob; `valid_ranges` on
  an empty blob) is counted and can be hit by a fault, although `read_exact(&mut [])` of the Rust
  standard traits makes no call on the underlying object (same convention as `Ops4.opTrace` and the
  encoders).
* the backing file of an io outboard (`"obio"` in `Ops4.opTrace`: one positional read / write per
  `load` / `save`) is not a separate object here: `.ob` / `.src` / `.dst` calls are `load` / `save`.
* a call that fails by itself (`save` on a node without a slot, `load` on a short backing, a short
  data stream), panics or is followed by a hash mismatch in a validator is logged as a call; a fault
  pointing at it reports the injected error instead (`_cut`).
* `outboard` / `outboard_post_order`: a parent with fewer than two hashes on the stack panics before
  any io (`stack.pop().unwrap()` comes first in the Rust code as well): nothing is logged.
* `Ops4.opTrace "valid-*"/"validob-*"` is the skeleton for an INTACT outboard; for the `EmptyOutboard`
  (`StoreKind.empty`) the validators stop after the first `load` (zero pair ≠ root), so the log of
  `validRangesF` is `[load root]` there while the skeleton lists the whole traversal.
-/

end Bao.C10
