import BaoProofs.Lemmas.SpecFlipL
import BaoProofs.Props.C12Copy
import BaoProofs.Props.C13Bytes

/-!
# The executable specification verdicts of `flipx`, `obpre` and `flip` never reject the model

The correspondence driver judges the implementation's output of

* `flipx seed size bs` (`Ops.opFlipX`): flip of memory outboards with ARBITRARY contents (and root),
  against the re-ordering of the 64-byte records computed from the recursive traversals
  `Spec.persistedPre` / `Spec.persistedPost` and `Spec.indexOfNode` (no offset function involved);
* `obpre pattern seed n m bs flavour` (`Ops.opObPre`): five numbers about the post-order outboards
  of a blob and of an extension (number of pairs, stable count, common prefix, the same two for
  the extension), against `Spec.nBlocks`, the count of persisted nodes whose subtree lies inside
  the blob, and the prefix inequalities;
* `flip blob bs` (`Ops.opFlip`): five flips / copies of the intact outboards (sync and fsm,
  memory and io), against `Spec.preOutboard` / `Spec.postOutboard`.

This file proves that each verdict accepts the model's own output:
`(op args (op args impl).model).specFail = none`, for all arguments that parse, `size ≤ 2^63`,
`bs ≤ 10` (and `n ≤ m` for `obpre`, see the FINDING at the end).

Hash instance.  The driver's `Ops.hf = realHash` has `toBytes = ofBytes = id`, so the hypothesis
`hlen : ∀ h, (toBytes h).length = 32` of `C12.flip_flip`, `C12.copy_spec`, `C13.writer_stable_prefix`
is false for it.  `Lemmas/SpecFlipL.lean` re-proves the closed forms of `copy` / `flip` from the byte
round trip alone (`ByteRT`, `copy_run'`, `flip_flip'`: the only use of `hlen` in `Lemmas/CopyL.lean`
is the length of a re-encoded record, and a verbatim copy of a 64-byte block has 64 bytes), and the
C13 byte statement / `copy_spec` from `SpecOb.OutLen` (hash OUTPUTS have 32 bytes, proved from the
BLAKE3 code in `Lemmas/SpecObL.lean`).
-/

set_option maxRecDepth 100000

namespace Bao.SpecFlip
open Bao Bao.Spec Bao.Ops Bao.Proto Bao.CopyL

/-! ## 0. `flip` / `copy` for instances without `hlen` -/

/-- `C12.flip_flip` from the byte round trip alone (no `hlen`): every memory store with ARBITRARY
data of exactly `outboardSize` bytes and arbitrary root flips to the store of the other kind, same
root and tree, holding the store's own 64-byte records re-ordered (`reorder`: position in the
source's list looked up with `Spec.indexOfNode`, concatenated along the target's list), and flipping
that gives the store back -/
theorem flip_flip_reorder {H : Type} (hf : HashFns H) (hbt : ByteRT hf) (s : Store H)
    (size bs : Nat) (hs : size ≤ 2 ^ 63) (hbs : bs ≤ 10) (ht : s.tree = ⟨size, bs⟩)
    (hk : s.kind = .preMem ∨ s.kind = .postMem)
    (hd : s.data.length = Tree.outboardSize ⟨size, bs⟩) :
    flip hf s = .ok ⟨flipKind s.kind, s.root, s.tree,
      reorder (plist s.kind size bs) (plist (flipKind s.kind) size bs) s.data⟩ ∧
    flip hf ⟨flipKind s.kind, s.root, s.tree,
      reorder (plist s.kind size bs) (plist (flipKind s.kind) size bs) s.data⟩ = .ok s := by
  have hsk : s.kind ≠ .empty := by rcases hk with h | h <;> simp [h]
  have h := flip_flip' hf hbt s size bs hs hbs ht hk hd
  rw [moved_eq_reorder s hsk _ size bs hs hbs ht] at h
  exact h

example : ∃ t, flip Ops.hf (⟨.preMem, [1], ⟨3000, 1⟩, List.replicate 64 9⟩ : Store HB) = .ok t ∧
    flip Ops.hf t = .ok ⟨.preMem, [1], ⟨3000, 1⟩, List.replicate 64 9⟩ :=
  ⟨_, flip_flip_reorder Ops.hf real_byteRT ⟨.preMem, [1], ⟨3000, 1⟩, List.replicate 64 9⟩ 3000 1
    (by decide) (by decide) rfl (.inl rfl) (by decide)⟩

/-- `C12.copy_spec` for instances whose hash outputs are 32 bytes and that have the byte round trip
(no `hlen`): copying a store that holds the specification outboard of its order yields the
specification outboard of the target's order (both flavours, memory or io on either side) -/
theorem copy_spec_outputs {H : Type} (hf : HashFns H) (hol : SpecOb.OutLen hf) (hbt : ByteRT hf)
    (fl : Flavour) (d : List UInt8) (bs : Nat) (src dst : Store H)
    (hp : C12.CopyPre src dst d.length bs)
    (hsrc : ((src.kind = .preIo ∨ src.kind = .preMem) ∧ src.data = Spec.preOutboard hf d bs) ∨
            ((src.kind = .postIo ∨ src.kind = .postMem) ∧ src.data = Spec.postOutboard hf d bs)) :
    copy hf fl src dst = .ok { dst with
      data := (if dst.kind = .postIo ∨ dst.kind = .postMem then Spec.postOutboard hf d bs
        else Spec.preOutboard hf d bs) } := by
  obtain ⟨hs, hbs, hst, hdt, hsk, _, hdk⟩ := hp
  have hsdat : src.data = specData hf d src.kind bs := by
    rcases hsrc with ⟨hk, hd⟩ | ⟨hk, hd⟩
    · rw [specData_pre hf d hk, hd]
    · rw [specData_post hf d hk, hd]
  rw [copy_spec' hf hol hbt fl d bs hs hbs src dst hst hdt hsk hsdat hdk.symm]
  by_cases hpo : dst.kind = .postIo ∨ dst.kind = .postMem
  · rw [if_pos hpo, specData_post hf d hpo]
  · rw [if_neg hpo]
    have hpr : dst.kind = .preIo ∨ dst.kind = .preMem := by
      rcases hdk with ⟨h | h, _⟩ | ⟨h | h, _⟩
      · exact .inr h
      · exact (hpo (.inr h)).elim
      · exact .inl h
      · exact (hpo (.inl h)).elim
    rw [specData_pre hf d hpr]

/-! ## 1. `flipx` -/

/-! ### component level: the four results -/

/-- the pre-order store with the random backing flips to the post-order store whose backing is the
verdict's `toPost` (records looked up in `persistedPre`, concatenated along `persistedPost`);
flipping again gives the original -/
theorem flipx_pre (seed size bs : Nat) (hs : size ≤ 2 ^ 63) (hbs : bs ≤ 10) :
    flip Ops.hf (fxPre seed size bs)
      = .ok ⟨.postMem, fxRoot seed size bs, ⟨size, bs⟩, fxToPost seed size bs⟩ ∧
    flip Ops.hf ⟨.postMem, fxRoot seed size bs, ⟨size, bs⟩, fxToPost seed size bs⟩
      = .ok (fxPre seed size bs) :=
  ⟨flip_pre seed size bs hs hbs, flip_pre_back seed size bs hs hbs⟩

example : flip Ops.hf (fxPre 3 5000 0)
    = .ok ⟨.postMem, fxRoot 3 5000 0, ⟨5000, 0⟩, fxToPost 3 5000 0⟩ :=
  (flipx_pre 3 5000 0 (by decide) (by decide)).1

/-- the post-order store with the random backing flips to the pre-order store whose backing is the
verdict's `toPre`; flipping again gives the original -/
theorem flipx_post (seed size bs : Nat) (hs : size ≤ 2 ^ 63) (hbs : bs ≤ 10) :
    flip Ops.hf (fxPost seed size bs)
      = .ok ⟨.preMem, fxRoot seed size bs, ⟨size, bs⟩, fxToPre seed size bs⟩ ∧
    flip Ops.hf ⟨.preMem, fxRoot seed size bs, ⟨size, bs⟩, fxToPre seed size bs⟩
      = .ok (fxPost seed size bs) :=
  ⟨flip_post seed size bs hs hbs, flip_post_back seed size bs hs hbs⟩

example : flip Ops.hf ⟨.preMem, fxRoot 3 5000 0, ⟨5000, 0⟩, fxToPre 3 5000 0⟩
    = .ok (fxPost 3 5000 0) :=
  (flipx_post 3 5000 0 (by decide) (by decide)).2

/-- the model's output line IS the verdict's expected line -/
theorem flipx_line (seed size bs : Nat) (hs : size ≤ 2 ^ 63) (hbs : bs ≤ 10) :
    fxModel seed size bs = fxSpec seed size bs :=
  fxModel_eq_spec seed size bs hs hbs

example : fxModel 3 5000 0 = fxSpec 3 5000 0 := flipx_line 3 5000 0 (by decide) (by decide)

/-! ### op level -/

/-- the full statement for `opFlipX`: on the model's own output the verdict is `none`, for every
argument list that parses to `seed size bs` -/
theorem flipx_specFail (args : List String) (impl : String) (seed size bs : Nat)
    (h : args.mapM (·.toNat?) = some [seed, size, bs]) (hs : size ≤ 2 ^ 63) (hbs : bs ≤ 10) :
    (opFlipX args (opFlipX args impl).model).specFail = none := by
  rw [(opFlipX_eq args _ seed size bs h).2, (opFlipX_eq args impl seed size bs h).1,
    flipx_line seed size bs hs hbs]
  unfold fxVerdict
  rw [beq_self_eq_true, if_pos rfl]

/-- `(opFlipX [seed, size, bs] m).specFail = none` for the model's own output `m` -/
theorem flipx_no_false_alarm (seed size bs : Nat) (impl : String)
    (hs : size ≤ 2 ^ 63) (hbs : bs ≤ 10) :
    (opFlipX [toString seed, toString size, toString bs]
      (opFlipX [toString seed, toString size, toString bs] impl).model).specFail = none :=
  flipx_specFail _ impl seed size bs (SpecIndex.mapM_toNat?_toString [seed, size, bs]) hs hbs

example : (opFlipX [toString 3, toString 5000, toString 0]
    (opFlipX [toString 3, toString 5000, toString 0] "").model).specFail = none :=
  flipx_no_false_alarm 3 5000 0 "" (by decide) (by decide)

example : (opFlipX [toString 77, toString 70000, toString 2]
    (opFlipX [toString 77, toString 70000, toString 2] "x").model).specFail = none :=
  flipx_specFail _ "x" 77 70000 2 (SpecIndex.mapM_toNat?_toString [77, 70000, 2]) (by decide)
    (by decide)

/-- the verdict is sharp: it accepts EXACTLY the model's line (so a wrong output is rejected) -/
theorem flipx_verdict_iff (args : List String) (impl : String) (seed size bs : Nat)
    (h : args.mapM (·.toNat?) = some [seed, size, bs]) (hs : size ≤ 2 ^ 63) (hbs : bs ≤ 10) :
    (opFlipX args impl).specFail = none ↔ impl = (opFlipX args impl).model := by
  rw [(opFlipX_eq args impl seed size bs h).2, (opFlipX_eq args impl seed size bs h).1,
    flipx_line seed size bs hs hbs]
  unfold fxVerdict
  by_cases e : impl = fxSpec seed size bs
  · simp [e]
  · have : (impl == fxSpec seed size bs) = false := by simpa using e
    simp [this, e]

theorem append_ne_empty_left (a b : String) (h : a ≠ "") : a ++ b ≠ "" := by
  intro e
  have := congrArg String.toList e
  rw [String.toList_append] at this
  have h2 : a.toList = [] := (List.append_eq_nil_iff.1 this).1
  exact h (String.toList_inj.1 h2)

theorem append_ne_empty_right (a b : String) (h : b ≠ "") : a ++ b ≠ "" := by
  intro e
  have := congrArg String.toList e
  rw [String.toList_append] at this
  have h2 : b.toList = [] := (List.append_eq_nil_iff.1 this).2
  exact h (String.toList_inj.1 h2)

theorem fxSpec_ne_empty (seed size bs : Nat) : fxSpec seed size bs ≠ "" := by
  unfold fxSpec
  repeat apply append_ne_empty_left
  decide

/-- the verdict rejects a wrong output (the empty line) -/
example : (opFlipX [toString 3, toString 5000, toString 0] "").specFail ≠ none := by
  intro hn
  have h := (flipx_verdict_iff _ "" 3 5000 0 (SpecIndex.mapM_toNat?_toString [3, 5000, 0])
    (by decide) (by decide)).1 hn
  rw [(opFlipX_eq _ "" 3 5000 0 (SpecIndex.mapM_toNat?_toString [3, 5000, 0])).1,
    flipx_line 3 5000 0 (by decide) (by decide)] at h
  exact fxSpec_ne_empty 3 5000 0 h.symm

/-! ## 2. `obpre` -/

/-! ### component level: one lemma per clause of the verdict -/

/-- clause 1 (number of pairs): the writer's output for the first `n` bytes has
`Spec.nBlocks n bs - 1` pairs -/
theorem obpre_pairs (ext : List UInt8) (n bs : Nat) (hn : n ≤ ext.length) (hs : n ≤ 2 ^ 63)
    (hbs : bs ≤ 10) : (opA ext n bs).length / 64 = Spec.nBlocks n bs - 1 := by
  rw [opA_length ext n bs hn hs hbs, (C12.post n bs hs hbs).1, C12.blocks_spec,
    Nat.mul_div_cancel _ (by decide)]

example : (opA (List.replicate 5000 7) 3000 0).length / 64 = Spec.nBlocks 3000 0 - 1 :=
  obpre_pairs _ 3000 0 (by decide) (by decide) (by decide)

/-- clauses 2 and 4 (stable count, of the blob and of the extension): the number of nodes of
`post_order_nodes_iter` that `post_order_offset` classifies `Stable` is the number of persisted
nodes whose (untruncated) subtree lies inside the blob -/
theorem obpre_stable (size bs : Nat) (hs : size ≤ 2 ^ 63) (hbs : bs ≤ 10) :
    opStable size bs = opSpecStable size bs ∧
    opSpecStable size bs = C13.stableCount size bs :=
  ⟨opStable_eq size bs hs hbs, opSpecStable_eq_count size bs hs hbs⟩

example : opStable 5000 0 = opSpecStable 5000 0 := (obpre_stable 5000 0 (by decide) (by decide)).1

/-- clause 3 (stable prefix): the two outputs have at least `stable count` common leading pairs -/
theorem obpre_prefix (ext : List UInt8) (n bs : Nat) (hn : n ≤ ext.length)
    (hs : ext.length ≤ 2 ^ 63) (hbs : bs ≤ 10) : opStable n bs ≤ opL ext n bs := by
  have hS : opSpecStable n bs ≤ (Spec.persistedPost n bs).length := List.length_filter_le _ _
  have hS' : opSpecStable n bs ≤ (Spec.persistedPost ext.length bs).length := by
    rw [opSpecStable_eq_count n bs (by omega) hbs]
    exact C13L.stable_count_le' hn hs hbs
  have hla := opA_length ext n bs hn (by omega) hbs
  have hlb := opB_length ext bs hs hbs
  have := lcp_of_take (opSpecStable n bs) ((opA ext n bs).length / 64 + 1) (opA ext n bs)
    (opB ext bs) 0 (by rw [hla, Nat.mul_div_cancel _ (by decide)]; omega)
    (opA_opB_take ext n bs hn hs hbs) (by omega) (by omega)
  rw [opStable_eq n bs (by omega) hbs]
  unfold opL
  omega

example : opStable 3000 0 ≤ opL (List.replicate 5000 7) 3000 0 :=
  obpre_prefix _ 3000 0 (by decide) (by decide) (by decide)

/-- clause 5 (the extension's outboard holds all its stable pairs) -/
theorem obpre_grown (ext : List UInt8) (bs : Nat) (hs : ext.length ≤ 2 ^ 63) (hbs : bs ≤ 10) :
    opStable ext.length bs ≤ (opB ext bs).length / 64 := by
  rw [opB_length ext bs hs hbs, Nat.mul_div_cancel _ (by decide), opStable_eq _ bs hs hbs]
  exact List.length_filter_le _ _

example : opStable (List.replicate 5000 7).length 0 ≤ (opB (List.replicate 5000 7) 0).length / 64 :=
  obpre_grown (List.replicate 5000 7) 0 (by decide) (by decide)

/-- the verdict on the model's five numbers -/
theorem obpre_verdict_nums (ext : List UInt8) (n bs : Nat) (hn : n ≤ ext.length)
    (hs : ext.length ≤ 2 ^ 63) (hbs : bs ≤ 10) :
    opVerdictNums ext n bs (some (opNums ext n bs)) = none := by
  have h1 := obpre_pairs ext n bs hn (by omega) hbs
  have h2 := (obpre_stable n bs (by omega) hbs).1
  have h3 := obpre_prefix ext n bs hn hs hbs
  have h4 := (obpre_stable ext.length bs hs hbs).1
  have h5 := obpre_grown ext bs hs hbs
  unfold opVerdictNums opNums
  simp only [h1, h2, h4, bne_self_eq_false, Bool.false_eq_true, if_false]
  rw [h2] at h3
  rw [h4] at h5
  rw [if_neg (by omega), if_neg (by omega)]

example : opVerdictNums (List.replicate 5000 7) 3000 0 (some (opNums (List.replicate 5000 7) 3000 0))
    = none := obpre_verdict_nums (List.replicate 5000 7) 3000 0 (by decide) (by decide) (by decide)

/-- the verdict accepts the numbers the model prints for `obpre const 7 3000 5000 0` … -/
example : opVerdictNums (List.replicate 5000 7) 3000 0 (some [2, 1, 1, 4, 3]) = none := by
  decide +kernel

/-- … and rejects wrong ones: a stable count that is too large, a common prefix that is too short,
a wrong number of pairs, and a line that is not five numbers -/
example : opVerdictNums (List.replicate 5000 7) 3000 0 (some [2, 2, 2, 4, 3])
    = some "stable count 2, spec 1" := by decide +kernel
example : opVerdictNums (List.replicate 5000 7) 3000 0 (some [2, 1, 0, 4, 3])
    = some "stable prefix of 1 pairs is not a prefix of the extension's outboard (common prefix 0)" := by
  decide +kernel
example : opVerdictNums (List.replicate 5000 7) 3000 0 (some [3, 1, 1, 4, 3])
    = some "number of pairs" := by decide +kernel
example : opVerdictNums (List.replicate 5000 7) 3000 0 (some [2, 1, 1, 4]) = some "malformed" := rfl
example : opVerdictNums (List.replicate 5000 7) 3000 0 none = some "malformed" := rfl

/-! ### op level -/

/-- the full statement for `opObPre`: on the model's own output the verdict is `none`, for all
argument strings that parse (`blob "<pat>:<seed>:<m>" = some ext`, numbers `n`, `bs`; the flavour
argument is not looked at by the model) with `n ≤ ext.length ≤ 2^63`, `bs ≤ 10` -/
theorem obpre_specFail (pat seed n m' bs fl impl : String) (ext : List UInt8) (nn bsn : Nat)
    (h1 : blob s!"{pat}:{seed}:{m'}" = some ext) (h2 : n.toNat? = some nn)
    (h3 : bs.toNat? = some bsn) (hn : nn ≤ ext.length) (hs : ext.length ≤ 2 ^ 63)
    (hbs : bsn ≤ 10) :
    (opObPre [pat, seed, n, m', bs, fl]
      (opObPre [pat, seed, n, m', bs, fl] impl).model).specFail = none := by
  rw [(opObPre_eq pat seed n m' bs fl _ ext nn bsn h1 h2 h3).2,
    (opObPre_eq pat seed n m' bs fl impl ext nn bsn h1 h2 h3).1]
  unfold opVerdict
  rw [opModel_parse]
  exact obpre_verdict_nums ext nn bsn hn hs hbs

theorem blob_const_lit : blob s!"{"const"}:{toString 7}:{toString 5000}"
    = some (List.replicate 5000 (UInt8.ofNat 7)) := SpecOb.blob_const 7 5000

example : (opObPre ["const", toString 7, toString 3000, toString 5000, toString 0, "sync"]
    (opObPre ["const", toString 7, toString 3000, toString 5000, toString 0, "sync"] "").model).specFail
    = none :=
  obpre_specFail "const" _ _ _ _ "sync" "" _ 3000 0 blob_const_lit (SpecIndex.toNat?_toString _)
    (SpecIndex.toNat?_toString _) (by decide) (by decide) (by decide)

/-- no parse hypothesis left: constant blobs (`const:B:M`), every `n ≤ m ≤ 2^63`, `bs ≤ 10` -/
theorem obpre_const_no_false_alarm (byte n m bs : Nat) (fl impl : String) (hn : n ≤ m)
    (hm : m ≤ 2 ^ 63) (hbs : bs ≤ 10) :
    (opObPre ["const", toString byte, toString n, toString m, toString bs, fl]
      (opObPre ["const", toString byte, toString n, toString m, toString bs, fl] impl).model).specFail
      = none :=
  obpre_specFail "const" _ _ _ _ fl impl (List.replicate m (UInt8.ofNat byte)) n bs
    (SpecOb.blob_const byte m) (SpecIndex.toNat?_toString _) (SpecIndex.toNat?_toString _)
    (by rw [List.length_replicate]; exact hn) (by rw [List.length_replicate]; exact hm) hbs

example : (opObPre ["const", toString 9, toString 70000, toString 70001, toString 2, "growfsm"]
    (opObPre ["const", toString 9, toString 70000, toString 70001, toString 2, "growfsm"] "x").model).specFail
    = none :=
  obpre_const_no_false_alarm 9 70000 70001 2 "growfsm" "x" (by decide) (by decide) (by decide)

/-! ### FINDING: `n > m` is a false alarm of the machinery -/

/-- for `n > ext.length` (a "prefix" longer than the blob) the verdict REJECTS the model's own
output: the model cuts `ext.take n = ext` but builds the tree of `n` bytes; `obpre const 7 1025 1000 0`
prints `0 0 0 0 0`, the verdict expects `Spec.nBlocks 1025 0 - 1 = 1` pairs -/
theorem obpre_longer_prefix_rejected :
    opVerdictNums (List.replicate 1000 7) 1025 0 (some (opNums (List.replicate 1000 7) 1025 0))
      = some "number of pairs" := by
  have h1 : (opA (List.replicate 1000 7) 1025 0).length / 64 = 0 := by decide +kernel
  have h2 : Spec.nBlocks 1025 0 - 1 = 1 := by decide
  unfold opVerdictNums opNums
  simp only [h1, h2]
  rfl

theorem blob_const_lit2 : blob s!"{"const"}:{toString 7}:{toString 1000}"
    = some (List.replicate 1000 (UInt8.ofNat 7)) := SpecOb.blob_const 7 1000

/-- the same on the level of the operation -/
theorem obpre_false_alarm :
    (opObPre ["const", toString 7, toString 1025, toString 1000, toString 0, "sync"]
      (opObPre ["const", toString 7, toString 1025, toString 1000, toString 0, "sync"] "").model).specFail
      = some "number of pairs" := by
  rw [(opObPre_eq "const" _ _ _ _ "sync" _ _ 1025 0 blob_const_lit2 (SpecIndex.toNat?_toString _)
      (SpecIndex.toNat?_toString _)).2,
    (opObPre_eq "const" _ _ _ _ "sync" "" _ 1025 0 blob_const_lit2 (SpecIndex.toNat?_toString _)
      (SpecIndex.toNat?_toString _)).1]
  unfold opVerdict
  rw [opModel_parse]
  exact obpre_longer_prefix_rejected

/-! ## 3. `flip` -/

/-! ### component level: the five results -/

/-- the two intact stores of the driver hold the specification outboards and the BLAKE3 root -/
theorem flip_intact (d : List UInt8) (bs : Nat) (hs : d.length ≤ 2 ^ 63) (hbs : bs ≤ 10) :
    intactStore .preMem d bs
      = ⟨.preMem, Spec.root Ops.hf d, ⟨d.length, bs⟩, Spec.preOutboard Ops.hf d bs⟩ ∧
    intactStore .postMem d bs
      = ⟨.postMem, Spec.root Ops.hf d, ⟨d.length, bs⟩, Spec.postOutboard Ops.hf d bs⟩ :=
  ⟨intact_pre d bs hs hbs, intact_post d bs hs hbs⟩

example : (intactStore .postMem (List.replicate 3000 7) 1).data
    = Spec.postOutboard Ops.hf (List.replicate 3000 7) 1 := by
  rw [(flip_intact (List.replicate 3000 7) 1 (by decide) (by decide)).2]

/-- the five byte strings the model prints are the ones the verdict expects:
pre→post (sync, memory), post→pre (sync, memory), the first result copied back (sync),
pre→post into an empty io backing (fsm), that io store copied back to pre-order memory (fsm) -/
theorem flip_components (d : List UInt8) (bs : Nat) (hs : d.length ≤ 2 ^ 63) (hbs : bs ≤ 10) :
    flA d bs = Spec.postOutboard Ops.hf d bs ∧
    flB d bs = Spec.preOutboard Ops.hf d bs ∧
    flC d bs = Spec.preOutboard Ops.hf d bs ∧
    flIo d bs = Spec.postOutboard Ops.hf d bs ∧
    flBack d bs = Spec.preOutboard Ops.hf d bs :=
  ⟨flA_eq d bs hs hbs, flB_eq d bs hs hbs, flC_eq d bs hs hbs, flIo_eq d bs hs hbs,
    flBack_eq d bs hs hbs⟩

example : flIo (List.replicate 3000 7) 1 = Spec.postOutboard Ops.hf (List.replicate 3000 7) 1 :=
  (flip_components _ 1 (by decide) (by decide)).2.2.2.1

/-- the model's output line IS the verdict's expected line -/
theorem flip_line (d : List UInt8) (bs : Nat) (hs : d.length ≤ 2 ^ 63) (hbs : bs ≤ 10) :
    flModel d bs = flSpec d bs := flModel_eq_spec d bs hs hbs

example : flModel (List.replicate 3000 7) 1 = flSpec (List.replicate 3000 7) 1 :=
  flip_line _ 1 (by decide) (by decide)

/-! ### op level -/

/-- the full statement for `opFlip`: on the model's own output the verdict is `none`, for all
argument strings that parse to a blob of at most `2^63` bytes and a block size `≤ 10` -/
theorem flip_specFail (b bs impl : String) (d : List UInt8) (bsn : Nat)
    (h1 : blob b = some d) (h2 : bs.toNat? = some bsn) (hs : d.length ≤ 2 ^ 63) (hbs : bsn ≤ 10) :
    (opFlip [b, bs] (opFlip [b, bs] impl).model).specFail = none := by
  rw [(opFlip_eq b bs _ d bsn h1 h2).2, (opFlip_eq b bs impl d bsn h1 h2).1,
    flip_line d bsn hs hbs]
  unfold flVerdict
  rw [beq_self_eq_true, if_pos rfl]

example : (opFlip ["const:7:3000", toString 1] (opFlip ["const:7:3000", toString 1] "").model).specFail
    = none :=
  flip_specFail "const:7:3000" _ "" _ 1 (SpecOb.blob_const 7 3000) (SpecIndex.toNat?_toString 1)
    (by decide) (by decide)

/-- no parse hypothesis left: constant blobs of every size `n ≤ 2^63` -/
theorem flip_const_no_false_alarm (byte n bs : Nat) (impl : String) (hn : n ≤ 2 ^ 63)
    (hbs : bs ≤ 10) :
    (opFlip ["const:" ++ toString byte ++ ":" ++ toString n, toString bs]
      (opFlip ["const:" ++ toString byte ++ ":" ++ toString n, toString bs] impl).model).specFail
      = none :=
  flip_specFail _ _ impl _ bs (SpecOb.blob_const byte n) (SpecIndex.toNat?_toString bs)
    (by rw [List.length_replicate]; exact hn) hbs

example : (opFlip ["const:" ++ toString 1 ++ ":" ++ toString 123456, toString 3]
    (opFlip ["const:" ++ toString 1 ++ ":" ++ toString 123456, toString 3] "y").model).specFail
    = none := flip_const_no_false_alarm 1 123456 3 "y" (by decide) (by decide)

/-- the verdict is sharp: it accepts EXACTLY the model's line -/
theorem flip_verdict_iff (b bs impl : String) (d : List UInt8) (bsn : Nat)
    (h1 : blob b = some d) (h2 : bs.toNat? = some bsn) (hs : d.length ≤ 2 ^ 63) (hbs : bsn ≤ 10) :
    (opFlip [b, bs] impl).specFail = none ↔ impl = (opFlip [b, bs] impl).model := by
  rw [(opFlip_eq b bs impl d bsn h1 h2).2, (opFlip_eq b bs impl d bsn h1 h2).1,
    flip_line d bsn hs hbs]
  unfold flVerdict
  by_cases e : impl = flSpec d bsn
  · simp [e]
  · have : (impl == flSpec d bsn) = false := by simpa using e
    simp [this, e]

theorem flSpec_ne_empty (d : List UInt8) (bs : Nat) : flSpec d bs ≠ "" := by
  unfold flSpec
  apply append_ne_empty_right
  decide

/-- the verdict rejects a wrong output (the empty line) -/
example : (opFlip ["const:7:3000", toString 1] "").specFail ≠ none := by
  intro hn
  have h := (flip_verdict_iff "const:7:3000" _ "" _ 1 (SpecOb.blob_const 7 3000)
    (SpecIndex.toNat?_toString 1) (by decide) (by decide)).1 hn
  rw [(opFlip_eq "const:7:3000" _ "" _ 1 (SpecOb.blob_const 7 3000)
    (SpecIndex.toNat?_toString 1)).1, flip_line _ 1 (by decide) (by decide)] at h
  exact flSpec_ne_empty _ 1 h.symm

end Bao.SpecFlip

/-
Status (no-false-alarm theorems for `flipx`, `obpre`, `flip`).
Hypotheses throughout: sizes `≤ 2^63`, `bs ≤ 10`, arguments that parse.  No `hlen` hypothesis anywhere:
the 32-byte facts come from `SpecOb.hf_outLen` (BLAKE3 outputs) and `real_byteRT` (`toBytes = ofBytes = id`).

PROVED (full strength):
  0. general (every `hf`):
     `flip_flip_reorder`   `C12.flip_flip` from the byte round trip ALONE (`ByteRT hf`, no `hlen`): a memory store
                           with arbitrary `outboardSize` bytes flips to the other kind, same root/tree, data =
                           `reorder (layout of s) (layout of the other kind) s.data` (records looked up with
                           `Spec.indexOfNode`), and flipping that gives `s` back.
                           (`SpecFlipL`: `copy_run'`, `flip_run'`, `moved_moved`, `flip_flip'`, `indexOfNode_plist`,
                           `moved_eq_reorder`.)
     `copy_spec_outputs`   `C12.copy_spec` under `SpecOb.OutLen hf` + `ByteRT hf` instead of `hlen` (`copy_spec'`).
  1. `flipx`:
     `flipx_pre`, `flipx_post`   component level: the four results `flip pre`, `flip (flip pre)`, `flip post`,
                           `flip (flip post)` are `.ok` of the four stores the verdict's line describes (`toPost`, the
                           original, `toPre`, the original; root unchanged);
     `flipx_line`          the model's line equals the verdict's `spec` line (as strings);
     `flipx_specFail`      `(opFlipX args (opFlipX args impl).model).specFail = none` for every `args` that parses to
                           `[seed, size, bs]`;  `flipx_no_false_alarm`: the same with `toString` arguments;
     `flipx_verdict_iff`   the verdict is `none` IFF the implementation's line is the model's line (sharpness).
  2. `obpre` (hypothesis `n ≤ ext.length`, see FINDING):
     `obpre_pairs`         `a.length / 64 = Spec.nBlocks n bs - 1`;
     `obpre_stable`        #(iterator nodes classified `Stable`) = #(persisted nodes with
                           `endOf (indexOf x) (levelOf x) * 1024 ≤ size`) = `C13.stableCount size bs`;
     `obpre_prefix`        stable count `≤ lcp a b` (from the C13 byte statement, re-proved under `OutLen`:
                           `postOutboard_stable_take'`, and `lcp_of_take`);
     `obpre_grown`         stable count of the extension `≤ b.length / 64`;
     `obpre_verdict_nums`  the verdict on the model's five numbers is `none`;
     `obpre_specFail`      `(opObPre args (opObPre args impl).model).specFail = none` for
                           `args = [pat, seed, n, m, bs, fl]` with `blob "<pat>:<seed>:<m>" = some ext`, `n`, `bs` numbers
                           (string level: `opModel_parse`, the line splits and parses to the five numbers);
     `obpre_const_no_false_alarm`  no parse hypothesis left for `const` blobs.
  3. `flip`:
     `flip_intact`         the driver's intact stores hold `Spec.preOutboard` / `Spec.postOutboard` and `Spec.root`;
     `flip_components`     the five copied / flipped byte strings are the ones the verdict expects;
     `flip_line`, `flip_specFail`, `flip_const_no_false_alarm`, `flip_verdict_iff` (as for `flipx`).
  In `SpecFlipL`: `opFlipX_eq`, `opObPre_eq`, `opFlip_eq` (the named copies ARE the `let`s of the operations, by `rfl`
  after the argument parse).

PARTIAL: none.   OPEN: none.

FINDING (false alarm of the machinery, proved: `obpre_longer_prefix_rejected`, `obpre_false_alarm`): for `n > m`
  (a "prefix" longer than the extension) the `obpre` verdict rejects the model's own output, e.g.
  `obpre const 7 1025 1000 0 sync`: the model prints `0 0 0 0 0` (it hashes `ext.take 1025 = ext`, 1000 bytes, with the
  tree of 1025 bytes), the verdict expects `Spec.nBlocks 1025 0 - 1 = 1` pairs → `some "number of pairs"`.
  More instances by `#eval`: `obpre const 7 5000 3000 0` (`1 3 1 2 1`), `… 2049 2048 0` (`1 1 1 1 1`).
  Corrected theorem = `obpre_specFail` with the hypothesis `n ≤ ext.length`.  The generator
  (`harness/src/gen2.rs`, property C13) only emits `n ≤ m`: pairs `(sizes[i], sizes[j ≥ i])` of the sorted
  `hash_sizes` list, and chains `m = n + r.below(…)`; so such arguments never reach the driver.
  `flipx` / `flip`: no false alarm inside `size ≤ 2^63`, `bs ≤ 10` (generator: `bs ≤ 8`, sizes `≤ 2_000_000`).

Axioms (`#print axioms`): `obpre_longer_prefix_rejected`: [propext, Quot.sound]; every other theorem of this file and
`opFlipX_eq`, `opObPre_eq`, `opFlip_eq`, `copy_run'`, `flip_flip'`, `copy_spec'`: [propext, Classical.choice, Quot.sound].
-/
