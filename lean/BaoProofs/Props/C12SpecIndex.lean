import BaoProofs.Lemmas.SpecIndexL

/-!
# The executable specification verdicts of `store` and `treeoff` never reject the model

The correspondence driver judges the implementation's output of `treeoff` (`Ops.opTreeOff`) and
`store` (`Ops.opStore`) with verdict code that does not use the model's offset functions
(`Tree.preOrderOffset`, `Tree.postOrderOffset`, `Store.slot`) but the counting indices
`Spec.preIndex` / `Spec.postIndex`.  This file proves that the verdicts accept the model:

1. `preIndex_eq_idxOf`, `postIndex_eq_idxOf` – the counting index is the position in the recursive
   lists `Spec.persistedPre` / `Spec.persistedPost` (the lists the C12 / C13 theorems are about);
2. `treeoff_model` – for every id `opTreeOff` calls relevant the model's offsets are the counting
   indices, with the Stable/Unstable tag the verdict computes, and the model's token is the
   verdict's token; `treeoff_bads_nil` – the list of rejected components is empty;
3. `store_model` – for the nodes of the tree and a full-length backing the components the `store`
   verdict compares, computed from the model, are the ones it expects (any hash instance);
   `store_verdict_model` – the model's output string consists of five tokens on which the verdict
   answers `none`.

Level of the statements.  The component-level theorems (`treeoff_bads_nil`, `store_model`,
`store_verdict_model`) speak about the compared token lists.  `Lemmas/SpecIndexStr.lean` proves that
`String.splitOn " "` inverts joining space-free tokens with `" "` (by following the legacy
`String.splitOnAux` on the list of characters), so the op-level statements
`(op args (op args impl).model).specFail = none` are proved as well: `treeoff_specFail`,
`store_specFail` (any argument strings that parse to the given values) and `treeoff_no_false_alarm`,
`store_no_false_alarm` (the decimal renderings of the numbers as arguments).
-/

set_option maxRecDepth 8192   -- `decide` on the 256-byte backings of the examples

namespace Bao.SpecIndex
open Bao Bao.Spec Bao.Ops Bao.Proto

/-! ## 1. the counting index is the position in the recursive list -/

/-- pre-order: `preIndex = some i` iff the `i`-th persisted node in pre-order is `x`; `none` iff `x`
is not persisted (every `u64` id) -/
theorem preIndex_eq_idxOf (size bs x : Nat) (hs : size ≤ 2 ^ 63) (hbs : bs ≤ 10) (hx : x < 2 ^ 64) :
    (∀ i, Spec.preIndex size bs x = some i ↔ (Spec.persistedPre size bs)[i]? = some x) ∧
    (Spec.preIndex size bs x = none ↔ x ∉ Spec.persistedPre size bs) :=
  ⟨fun i => preIndex_iff size bs x i hs hbs hx, preIndex_none_iff size bs x hs hbs hx⟩

example : Spec.preIndex 5000 0 1 = some 1 :=
  ((preIndex_eq_idxOf 5000 0 1 (by decide) (by decide) (by decide)).1 1).2 (by decide)

example : Spec.preIndex 5000 0 4 = none :=
  (preIndex_eq_idxOf 5000 0 4 (by decide) (by decide) (by decide)).2.2 (by decide)

/-- post-order twin -/
theorem postIndex_eq_idxOf (size bs x : Nat) (hs : size ≤ 2 ^ 63) (hbs : bs ≤ 10) (hx : x < 2 ^ 64) :
    (∀ i, Spec.postIndex size bs x = some i ↔ (Spec.persistedPost size bs)[i]? = some x) ∧
    (Spec.postIndex size bs x = none ↔ x ∉ Spec.persistedPost size bs) :=
  ⟨fun i => postIndex_iff size bs x i hs hbs hx, postIndex_none_iff size bs x hs hbs hx⟩

example : Spec.postIndex 5000 0 1 = some 2 :=
  ((postIndex_eq_idxOf 5000 0 1 (by decide) (by decide) (by decide)).1 2).2 (by decide)

example : Spec.postIndex 20000 1 2 = none :=
  (postIndex_eq_idxOf 20000 1 2 (by decide) (by decide) (by decide)).2.2 (by decide)

/-- the same as one equation with the specification's own `Spec.indexOfNode` (position of the first
occurrence) -/
theorem preIndex_eq_indexOfNode (size bs x : Nat) (hs : size ≤ 2 ^ 63) (hbs : bs ≤ 10)
    (hx : x < 2 ^ 64) :
    Spec.preIndex size bs x = Spec.indexOfNode (Spec.persistedPre size bs) x :=
  preIndex_eq_indexOfNode' size bs x hs hbs hx

example : Spec.preIndex 20000 1 7 = Spec.indexOfNode (Spec.persistedPre 20000 1) 7 :=
  preIndex_eq_indexOfNode 20000 1 7 (by decide) (by decide) (by decide)

theorem postIndex_eq_indexOfNode (size bs x : Nat) (hs : size ≤ 2 ^ 63) (hbs : bs ≤ 10)
    (hx : x < 2 ^ 64) :
    Spec.postIndex size bs x = Spec.indexOfNode (Spec.persistedPost size bs) x :=
  postIndex_eq_indexOfNode' size bs x hs hbs hx

example : Spec.postIndex 20000 1 7 = Spec.indexOfNode (Spec.persistedPost 20000 1) 7 :=
  postIndex_eq_indexOfNode 20000 1 7 (by decide) (by decide) (by decide)

/-- `Spec.countSub` (used by both walks) counts the nodes of the recursive lists -/
theorem countSub_eq (n minL L k : Nat) :
    Spec.countSub n minL L k = (Spec.preNodes n minL L k).length ∧
    Spec.countSub n minL L k = (Spec.postNodes n minL L k).length :=
  ⟨countSub_eq_length n minL L k, countSub_eq_length_post n minL L k⟩

/-! ## 2. `treeoff` -/

/-- for every id that `opTreeOff` calls relevant (`Ops.inTree` is literally that predicate): the
model's pre-order offset is `Spec.preIndex`, the model's post-order offset is `Spec.postIndex` with
the tag "stable iff `endOf k L * 1024 ≤ size`", and the model's token equals the verdict's token -/
theorem treeoff_model (size bs x : Nat) (hs : size ≤ 2 ^ 63) (hbs : bs ≤ 10) (hx : x < 2 ^ 64)
    (hrel : Ops.inTree size bs x = true) :
    Tree.preOrderOffset ⟨size, bs⟩ x = Spec.preIndex size bs x ∧
    Tree.postOrderOffset ⟨size, bs⟩ x = (Spec.postIndex size bs x).map (fun i =>
      if Spec.endOf (Spec.indexOf x) (Spec.levelOf x) * 1024 ≤ size then Tree.PostOffset.stable i
      else Tree.PostOffset.unstable i) ∧
    modelTok size bs x = specTok size bs x :=
  ⟨pre_model size bs x hs hbs hx hrel, post_model size bs x hs hbs hx hrel,
    tok_eq size bs x hs hbs hx hrel⟩

example : Tree.preOrderOffset ⟨5000, 0⟩ 3 = Spec.preIndex 5000 0 3 :=
  (treeoff_model 5000 0 3 (by decide) (by decide) (by decide) (by decide)).1

/-- the half-filled last leaf (id 4 of the 5-chunk tree) is relevant too -/
example : Tree.postOrderOffset ⟨5000, 0⟩ 4 = none ∧ Spec.postIndex 5000 0 4 = none := by
  have := (treeoff_model 5000 0 4 (by decide) (by decide) (by decide) (by decide)).2.1
  exact ⟨by decide, by decide⟩

/-- `relevant` of `opTreeOff` is `Ops.inTree` -/
theorem relevant_eq_inTree (size bs x : Nat) :
    (let n := Spec.nChunks size
     let sblocks := Spec.nBlocks size bs
     let halfLeaf := Node.subBs (sblocks - 1) bs
     let L := Spec.levelOf x
     let k := Spec.indexOf x
     Spec.midOf k L < n || (sblocks % 2 == 1 && x == halfLeaf)) = Ops.inTree size bs x := rfl

/-- component level "no false alarm" for `treeoff`: with the model's tokens as the implementation's
tokens, the list `bads` of `opTreeOff` is empty and the token count matches -/
theorem treeoff_bads_nil (size bs id0 count : Nat) (hs : size ≤ 2 ^ 63) (hbs : bs ≤ 10)
    (hid : id0 + count ≤ 2 ^ 64) :
    let ids := (List.range count).map (· + id0)
    let implT := ids.map (modelTok size bs)
    let specT := ids.map (specTok size bs)
    ((List.zip ids (List.zip implT specT)).filter
      fun (x, (a, b)) => Ops.inTree size bs x && a != b) = [] ∧ implT.length = ids.length := by
  refine ⟨bads_nil size bs hs hbs _ ?_, by simp⟩
  intro x hx
  obtain ⟨j, hj, rfl⟩ := List.mem_map.1 hx
  have := List.mem_range.1 hj
  omega

example :
    ((List.zip ((List.range 6).map (· + 0)) (List.zip
        (((List.range 6).map (· + 0)).map (modelTok 5000 0))
        (((List.range 6).map (· + 0)).map (specTok 5000 0)))).filter
      fun (x, (a, b)) => Ops.inTree 5000 0 x && a != b) = [] :=
  (treeoff_bads_nil 5000 0 0 6 (by decide) (by decide) (by decide)).1

/-- the full statement for `opTreeOff`: on the model's own output the verdict is `none`, for every
argument list that parses to `size bs id0 count` with `count > 0` (for `count = 0` the statement is
FALSE: the output is `""`, `"".splitOn " " = [""]` has one token for zero ids, and the verdict is
`some "malformed"`) -/
theorem treeoff_specFail (args : List String) (impl : String) (size bs id0 count : Nat)
    (h : args.mapM (·.toNat?) = some [size, bs, id0, count])
    (hs : size ≤ 2 ^ 63) (hbs : bs ≤ 10) (hid : id0 + count ≤ 2 ^ 64) (hc : 0 < count) :
    (opTreeOff args (opTreeOff args impl).model).specFail = none := by
  have hne : (List.range count).map (· + id0) ≠ [] := by
    intro e
    have := congrArg List.length e
    simp at this
    omega
  rw [(opTreeOff_eq args impl size bs id0 count h).2, (opTreeOff_eq args _ size bs id0 count h).1]
  unfold treeoffVerdict
  simp only [treeoff_split_model size bs _ hne, treeoff_split_spec size bs _ hne,
    (treeoff_bads_nil size bs id0 count hs hbs hid).1, List.length_map,
    beq_self_eq_true, if_true]

/-- `(opTreeOff [size, bs, id0, count] m).specFail = none` for the model's own output `m` -/
theorem treeoff_no_false_alarm (size bs id0 count : Nat) (impl : String)
    (hs : size ≤ 2 ^ 63) (hbs : bs ≤ 10) (hid : id0 + count ≤ 2 ^ 64) (hc : 0 < count) :
    (opTreeOff [toString size, toString bs, toString id0, toString count]
      (opTreeOff [toString size, toString bs, toString id0, toString count] impl).model).specFail
      = none :=
  treeoff_specFail _ impl size bs id0 count (mapM_toNat?_toString [size, bs, id0, count]) hs hbs
    hid hc

example : (opTreeOff [toString 5000, toString 0, toString 0, toString 6]
    (opTreeOff [toString 5000, toString 0, toString 0, toString 6] "").model).specFail = none :=
  treeoff_no_false_alarm 5000 0 0 6 "" (by decide) (by decide) (by decide) (by decide)

example : (opTreeOff [toString 20000, toString 1, toString 3, toString 30]
    (opTreeOff [toString 20000, toString 1, toString 3, toString 30] "x").model).specFail = none :=
  treeoff_specFail _ "x" 20000 1 3 30 (mapM_toNat?_toString [20000, 1, 3, 30]) (by decide) (by decide) (by decide)
    (by decide)

/-- the hypothesis `0 < count` is needed: for `count = 0` the verdict REJECTS the model's own output
(the output is `""`, which `splitOn " "` splits into the one token `""` for zero ids) -/
theorem treeoff_count_zero_malformed (size bs id0 : Nat) (impl : String) :
    (opTreeOff [toString size, toString bs, toString id0, toString 0]
      (opTreeOff [toString size, toString bs, toString id0, toString 0] impl).model).specFail
      = some "malformed" := by
  have h : [toString size, toString bs, toString id0, toString 0].mapM (·.toNat?)
      = some [size, bs, id0, 0] := mapM_toNat?_toString [size, bs, id0, 0]
  rw [(opTreeOff_eq _ impl size bs id0 0 h).2, (opTreeOff_eq _ _ size bs id0 0 h).1]
  unfold treeoffVerdict
  have e : ("" : String).splitOn " " = [""] := by
    rw [splitOn_space]; rfl
  simp [e]

/-! ## 3. `store` -/

section store
variable {H : Type}

/-- component level statement for `store`, any hash instance (`idxOf kind size bs node` is the
verdict's `idx`: `Spec.postIndex` for the post-order kinds, `Spec.preIndex` otherwise).  For a node
of the tree and a backing of the outboard size:

* index `some i`, persisting kind: the first `load` returns the 64 bytes at `64·i`, `save` succeeds
  and replaces exactly these 64 bytes by the pair, the second `load` returns the saved pair;
* index `some i`, `EmptyOutboard`: `load` returns the zero pair, `save` succeeds, nothing changes;
* index `none`: `load` returns `none`, the io kinds accept the save and change nothing, the memory
  kinds and the `EmptyOutboard` answer `Io(InvalidInput)`.

(`sync` has no model: the driver prints the constant `Ok`.) -/
theorem store_model (hf : HashFns H) (fl : Flavour) (kind : StoreKind) (root : H)
    (size bs node : Nat) (backing : List UInt8) (pair : H × H)
    (hb1 : (hf.toBytes pair.1).length = 32) (hb2 : (hf.toBytes pair.2).length = 32)
    (hr1 : hf.ofBytes (hf.toBytes pair.1) = pair.1) (hr2 : hf.ofBytes (hf.toBytes pair.2) = pair.2)
    (hs : size ≤ 2 ^ 63) (hbs : bs ≤ 10) (hx : node < 2 ^ 64)
    (hin : Ops.inTree size bs node = true)
    (hdl : backing.length = Tree.outboardSize ⟨size, bs⟩) :
    match (if isPostKind kind then Spec.postIndex size bs node else Spec.preIndex size bs node) with
    | some i =>
      if kind = .empty then
        Store.load hf fl (⟨kind, root, ⟨size, bs⟩, backing⟩ : Store H) node
            = .ok (some (hf.ofBytes zeros32, hf.ofBytes zeros32)) ∧
        Store.save hf (⟨kind, root, ⟨size, bs⟩, backing⟩ : Store H) node pair
            = .ok ⟨kind, root, ⟨size, bs⟩, backing⟩
      else
        Store.load hf fl (⟨kind, root, ⟨size, bs⟩, backing⟩ : Store H) node
            = .ok (some (parsePair hf ((backing.drop (i * 64)).take 64))) ∧
        Store.save hf (⟨kind, root, ⟨size, bs⟩, backing⟩ : Store H) node pair
            = .ok ⟨kind, root, ⟨size, bs⟩, backing.take (i * 64)
                ++ (hf.toBytes pair.1 ++ hf.toBytes pair.2) ++ backing.drop (i * 64 + 64)⟩ ∧
        Store.load hf fl (⟨kind, root, ⟨size, bs⟩, backing.take (i * 64)
                ++ (hf.toBytes pair.1 ++ hf.toBytes pair.2) ++ backing.drop (i * 64 + 64)⟩ : Store H)
            node = .ok (some pair)
    | none =>
      Store.load hf fl (⟨kind, root, ⟨size, bs⟩, backing⟩ : Store H) node = .ok none ∧
      Store.save hf (⟨kind, root, ⟨size, bs⟩, backing⟩ : Store H) node pair
        = (if kind = .preIo ∨ kind = .postIo then .ok ⟨kind, root, ⟨size, bs⟩, backing⟩
           else .err ⟨.invalidInput, false⟩) := by
  have hidx : (if isPostKind kind then Spec.postIndex size bs node else Spec.preIndex size bs node)
      = idxOf kind size bs node := rfl
  rw [hidx]
  cases h : idxOf kind size bs node with
  | none => exact store_none hf fl kind root size bs node backing pair hs hbs hx hin h
  | some i =>
    by_cases hk : kind = .empty
    · simp only [if_pos hk]
      subst hk
      exact store_some_empty hf fl root size bs node i backing pair hs hbs hx hin h
    · simp only [if_neg hk]
      exact store_some hf fl kind root size bs node i backing pair hb1 hb2 hr1 hr2 hs hbs hx hin
        hdl hk h

/-- 5000 bytes, block size 0, pre-order memory outboard, node 1 (index 1): toy hash -/
example :
    Store.load C12Store.toyHash .sync (⟨.preMem, 0, ⟨5000, 0⟩, List.replicate 256 9⟩ : Store UInt8) 1
      = .ok (some (parsePair C12Store.toyHash (((List.replicate 256 9).drop (1 * 64)).take 64))) := by
  have := store_model C12Store.toyHash .sync .preMem 0 5000 0 1 (List.replicate 256 9) (5, 6)
    (by decide) (by decide) rfl rfl (by decide) (by decide) (by decide) (by decide) (by decide)
  have e : (if isPostKind .preMem then Spec.postIndex 5000 0 1 else Spec.preIndex 5000 0 1)
      = some 1 := by decide
  rw [e] at this
  exact this.1

end store

/-- `store` with the driver's hash instance, on the level of the output string: the model prints
`a rs c Ok after` (`fmt5`) where `[a, rs, c, "Ok", after] = storeTokens …`, and the verdict
(`storeVerdict`, the verbatim copy of the verdict code of `opStore`, see `opStore_eq`) answers
`none` on these five tokens -/
theorem store_verdict_model (fl : Flavour) (kind : StoreKind) (size bs node : Nat)
    (backing : List UInt8) (pair : HB × HB) (hp1 : pair.1.length = 32) (hp2 : pair.2.length = 32)
    (hs : size ≤ 2 ^ 63) (hbs : bs ≤ 10) (hx : node < 2 ^ 64)
    (hin : Ops.inTree size bs node = true)
    (hdl : backing.length = Tree.outboardSize ⟨size, bs⟩) :
    (∃ a rs c after, storeTokens kind size bs node backing pair = [a, rs, c, "Ok", after] ∧
      storeModelStr fl kind size bs node backing pair = fmt5 a rs c after) ∧
    storeVerdict kind size bs node backing pair (storeTokens kind size bs node backing pair)
      = none := by
  unfold storeTokens
  cases h : idxOf kind size bs node with
  | none =>
    exact ⟨⟨_, _, _, _, rfl, model_none fl kind size bs node backing pair hs hbs hx hin h⟩,
      verdict_none kind size bs node backing pair "Ok" h⟩
  | some i =>
    exact ⟨⟨_, _, _, _, rfl,
      model_some fl kind size bs node i backing pair hp1 hp2 hs hbs hx hin hdl h⟩,
      verdict_some kind size bs node i backing pair h⟩

example : storeVerdict .postIo 5000 0 3 (List.replicate 256 9)
    (List.replicate 32 1, List.replicate 32 2)
    (storeTokens .postIo 5000 0 3 (List.replicate 256 9) (List.replicate 32 1, List.replicate 32 2))
    = none :=
  (store_verdict_model .fsm .postIo 5000 0 3 (List.replicate 256 9)
    (List.replicate 32 1, List.replicate 32 2) (by decide) (by decide) (by decide) (by decide)
    (by decide) (by decide) (by decide)).2

/-- the model's output, split at the spaces, is the list of the five expected tokens -/
theorem store_split (fl : Flavour) (kind : StoreKind) (size bs node : Nat)
    (backing : List UInt8) (pair : HB × HB) (hp1 : pair.1.length = 32) (hp2 : pair.2.length = 32)
    (hs : size ≤ 2 ^ 63) (hbs : bs ≤ 10) (hx : node < 2 ^ 64)
    (hin : Ops.inTree size bs node = true)
    (hdl : backing.length = Tree.outboardSize ⟨size, bs⟩) :
    (storeModelStr fl kind size bs node backing pair).splitOn " "
      = storeTokens kind size bs node backing pair := by
  obtain ⟨⟨a, rs, c, after, htok, hm⟩, -⟩ :=
    store_verdict_model fl kind size bs node backing pair hp1 hp2 hs hbs hx hin hdl
  rw [hm, htok]
  exact split_fmt5 a rs c after (htok ▸ noSp_storeTokens kind size bs node backing pair)

example : (storeModelStr .sync .preMem 5000 0 1 (List.replicate 256 9)
      (List.replicate 32 1, List.replicate 32 2)).splitOn " "
    = storeTokens .preMem 5000 0 1 (List.replicate 256 9)
      (List.replicate 32 1, List.replicate 32 2) :=
  store_split .sync .preMem 5000 0 1 _ _ (by decide) (by decide) (by decide) (by decide)
    (by decide) (by decide) (by decide)

/-- the full statement for `opStore` (six arguments: no `short` backing): on the model's own output
the verdict is `none`.  No hypothesis "node of the tree": for other ids the verdict is `none`
anyway; the random backing and pair have the right lengths by `randBytes_length`. -/
theorem store_specFail (a b c d e f impl : String) (fl : Flavour) (kind : StoreKind)
    (size bs seed node : Nat)
    (h1 : flavour? a = some fl) (h2 : storeKind? b = some kind) (h3 : c.toNat? = some size)
    (h4 : d.toNat? = some bs) (h5 : e.toNat? = some seed) (h6 : f.toNat? = some node)
    (hs : size ≤ 2 ^ 63) (hbs : bs ≤ 10) (hx : node < 2 ^ 64) :
    (opStore [a, b, c, d, e, f] (opStore [a, b, c, d, e, f] impl).model).specFail = none := by
  rw [(opStore_eq a b c d e f impl fl kind size bs seed node h1 h2 h3 h4 h5 h6).1,
    (opStore_eq a b c d e f _ fl kind size bs seed node h1 h2 h3 h4 h5 h6).2]
  by_cases hin : Ops.inTree size bs node = true
  · rw [hin, store_split fl kind size bs node _ _ (randBytes_length _ _) (randBytes_length _ _)
      hs hbs hx hin (randBytes_length _ _)]
    exact (store_verdict_model fl kind size bs node _ _ (randBytes_length _ _)
      (randBytes_length _ _) hs hbs hx hin (randBytes_length _ _)).2
  · simp only [Bool.not_eq_true] at hin
    rw [hin]; rfl

/-- `(opStore [flavour, kind, size, bs, seed, node] m).specFail = none` for the model's own output -/
theorem store_no_false_alarm (a b impl : String) (fl : Flavour) (kind : StoreKind)
    (size bs seed node : Nat) (h1 : flavour? a = some fl) (h2 : storeKind? b = some kind)
    (hs : size ≤ 2 ^ 63) (hbs : bs ≤ 10) (hx : node < 2 ^ 64) :
    (opStore [a, b, toString size, toString bs, toString seed, toString node]
      (opStore [a, b, toString size, toString bs, toString seed, toString node] impl).model).specFail
      = none :=
  store_specFail a b _ _ _ _ impl fl kind size bs seed node h1 h2 (toNat?_toString _)
    (toNat?_toString _) (toNat?_toString _) (toNat?_toString _) hs hbs hx

example : (opStore ["sync", "preIo", toString 5000, toString 0, toString 7, toString 3]
    (opStore ["sync", "preIo", toString 5000, toString 0, toString 7, toString 3] "").model).specFail
    = none :=
  store_no_false_alarm "sync" "preIo" "" .sync .preIo 5000 0 7 3 rfl rfl (by decide) (by decide)
    (by decide)

example : (opStore ["fsm", "postMem", toString 20000, toString 1, toString 9, toString 12]
    (opStore ["fsm", "postMem", toString 20000, toString 1, toString 9, toString 12] "").model).specFail
    = none :=
  store_specFail "fsm" "postMem" _ _ _ _ "" .fsm .postMem 20000 1 9 12 rfl rfl (toNat?_toString _)
    (toNat?_toString _) (toNat?_toString _) (toNat?_toString _) (by decide) (by decide) (by decide)

end Bao.SpecIndex

/-
Status (task A10: the `store` / `treeoff` verdicts never reject the model).
Hypotheses throughout: `size ≤ 2^63`, `bs ≤ 10`, id `x < 2^64` (every `u64` id; the task asked for
`x + 1 < 2^64`).

PROVED (full strength):
  1. `preIndex_eq_idxOf`, `postIndex_eq_idxOf`   `Spec.preIndex/postIndex size bs x = some i ↔
       (Spec.persistedPre/Post size bs)[i]? = some x`, and `= none ↔ x ∉ …`;
     `preIndex_eq_indexOfNode`, `postIndex_eq_indexOfNode`   the same as ONE equation with
       `Spec.indexOfNode`;  `countSub_eq`   `Spec.countSub n minL L k` = length of `preNodes` / `postNodes`
       (all `n minL L k`, no bound).
  2. `treeoff_model`   for every relevant id (`relevant_eq_inTree`: `relevant` of `opTreeOff` IS `Ops.inTree`,
       by `rfl`): `Tree.preOrderOffset = Spec.preIndex`, `Tree.postOrderOffset = (Spec.postIndex).map tag`
       with `tag i = stable i` iff `endOf k L * 1024 ≤ size`, and model token = verdict token;
     `treeoff_bads_nil`   component level: with the model's tokens the list `bads` is `[]` and the token count
       matches (ids `id0 … id0+count-1 < 2^64`);
     `treeoff_specFail`   `(opTreeOff args (opTreeOff args impl).model).specFail = none` for every `args` that
       parses to `[size, bs, id0, count]`, `count > 0`;  `treeoff_no_false_alarm`   the same with
       `args = [toString size, toString bs, toString id0, toString count]`.
  3. `store_model`   any hash instance, every flavour, all five kinds, node of the tree (`Ops.inTree`), backing
       of the outboard size: first load / save result / second load / backing after, computed from
       `Store.load` / `Store.save`, are what the verdict expects from `Spec.preIndex/postIndex`
       (hypotheses on the pair only: its two halves are 32 bytes and survive the byte round trip);
     `store_verdict_model`   the driver's hash: the model prints `fmt5 a rs c after` with
       `[a, rs, c, "Ok", after] = storeTokens …` and `storeVerdict … (storeTokens …) = none`;
     `store_split`   `(model output).splitOn " " = storeTokens …`;
     `store_specFail`   `(opStore [a,…,f] (opStore [a,…,f] impl).model).specFail = none` for six arguments that
       parse (no hypothesis on the node: ids outside the tree are not judged; random backing / pair lengths by
       `randBytes_length`);  `store_no_false_alarm`   the same with the numbers rendered by `toString`.
  In `SpecIndexL`: `opTreeOff_eq`, `opStore_eq` (the copies `specTok`, `modelTok`, `treeoffVerdict`,
  `storeModelStr`, `storeVerdict` ARE the `let`s of the operations, by `rfl` after the argument parse),
  `randBytes_length`.  In `SpecIndexStr`: `splitOn_space`, `splitOn_intercalate` (`String.splitOn " "` inverts
  joining space-free tokens), `noSp_nat`, `toNat?_toString`.

PARTIAL: none.   OPEN: none.
Not covered: the seven-argument form of `store` (`short=N`, truncated backing): there the verdict is `none`
by definition (`short.isSome`), nothing to prove.

FINDING (degenerate false alarm, proved: `treeoff_count_zero_malformed`): for `count = 0` the verdict rejects
  the model's own `treeoff` output: the output is `""`, `"".splitOn " " = [""]` has length 1 ≠ 0 = `ids.length`,
  `specFail = some "malformed"`.  Harmless as long as the generator never emits `count = 0`.

Axioms (`#print axioms`): `relevant_eq_inTree`: none; every other theorem of this file and `opTreeOff_eq`,
`opStore_eq`, `randBytes_length`, `splitOn_intercalate`: [propext, Classical.choice, Quot.sound].
-/
