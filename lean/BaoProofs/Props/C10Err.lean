import BaoModel.Misc

/-!
# C10 / C09 (supplement): error wrapping keeps the io kind

`EncodeError::maybe_parent_write` / `maybe_leaf_write` and `DecodeError::maybe_parent_not_found` /
`maybe_leaf_not_found` wrap an io error into a more specific variant; converting the result back with
`io::Error::from` always yields an error of the ORIGINAL kind, so a caller that only looks at io kinds sees the
failure it injected.  Hash mismatches convert to `InvalidData` and nothing else does so by wrapping.
-/

namespace Bao.C10Err

theorem enc_parent_write_kind (e : IoErr) (n : Nat) : (EncodeError.maybeParentWrite e n).toIoKind = e.kind := by
  rcases e with ⟨k, i⟩; cases k <;> rfl

theorem enc_leaf_write_kind (e : IoErr) (c : Nat) : (EncodeError.maybeLeafWrite e c).toIoKind = e.kind := by
  rcases e with ⟨k, i⟩; cases k <;> rfl

theorem dec_parent_not_found_kind (e : IoErr) (n : Nat) :
    (DecodeError.maybeParentNotFound e n).toIoKind = e.kind := by
  rcases e with ⟨k, i⟩; cases k <;> rfl

theorem dec_leaf_not_found_kind (e : IoErr) (c : Nat) :
    (DecodeError.maybeLeafNotFound e c).toIoKind = e.kind := by
  rcases e with ⟨k, i⟩; cases k <;> rfl

/-- the write-failed variants arise only from a connection reset -/
theorem enc_write_variant_iff (e : IoErr) (n : Nat) :
    (EncodeError.maybeParentWrite e n = .parentWrite n ↔ e.kind = .connectionReset) ∧
    (EncodeError.maybeLeafWrite e n = .leafWrite n ↔ e.kind = .connectionReset) := by
  rcases e with ⟨k, i⟩
  cases k <;> simp [EncodeError.maybeParentWrite, EncodeError.maybeLeafWrite] <;> decide

/-- the not-found variants arise only from an unexpected end of the stream -/
theorem dec_not_found_variant_iff (e : IoErr) (n : Nat) :
    (DecodeError.maybeParentNotFound e n = .parentNotFound n ↔ e.kind = .unexpectedEof) ∧
    (DecodeError.maybeLeafNotFound e n = .leafNotFound n ↔ e.kind = .unexpectedEof) := by
  rcases e with ⟨k, i⟩
  cases k <;> simp [DecodeError.maybeParentNotFound, DecodeError.maybeLeafNotFound] <;> decide

/-- a wrapped io error never turns into a hash mismatch or a size mismatch -/
theorem enc_wrap_not_mismatch (e : IoErr) (n m : Nat) :
    EncodeError.maybeParentWrite e n ≠ .parentHashMismatch m ∧ EncodeError.maybeParentWrite e n ≠ .leafHashMismatch m ∧
    EncodeError.maybeLeafWrite e n ≠ .parentHashMismatch m ∧ EncodeError.maybeLeafWrite e n ≠ .leafHashMismatch m ∧
    EncodeError.maybeParentWrite e n ≠ .sizeMismatch ∧ EncodeError.maybeLeafWrite e n ≠ .sizeMismatch := by
  unfold EncodeError.maybeParentWrite EncodeError.maybeLeafWrite
  refine ⟨?_, ?_, ?_, ?_, ?_, ?_⟩ <;> (split <;> intro h <;> cases h)

/-- the texts of the converted errors name the item: level and middle chunk of a node, byte offset of a chunk -/
theorem texts (n c : Nat) :
    (EncodeError.parentWrite n).ioText = s!"parent write failed (level {Node.level n}, block {Node.mid n})" ∧
    (EncodeError.leafWrite c).ioText = s!"leaf write failed at {toBytes64 c}" ∧
    (DecodeError.leafHashMismatch c).ioText = s!"leaf hash mismatch (offset {toBytes64 c})" :=
  ⟨rfl, rfl, rfl⟩

end Bao.C10Err
