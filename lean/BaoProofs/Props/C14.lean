import BaoProofs.Lemmas.RangeList

/-!
# C14 (first half): canonicalising a query against a blob size

`truncate q size` (`truncate_ranges` / `truncated_len`, `src/rec.rs`) keeps the set of
selected chunks (queried chunks inside the blob, plus the last chunk when the query reaches
it or past it), is idempotent, is a prefix of `q`, and is bounded by the last chunk.
Second part: `split` / `split_inner` (`src/lib.rs`) preserve membership on their side of the
cut and preserve well-formedness.

All statements were first checked with `#eval` on every increasing boundary list over
`{0..8}` and sizes `0 .. 9·1024+500`.
-/

namespace Bao.C14

open Bao.Ranges

/-! ## `truncate` -/

/-- the canonical query is a well-formed range set -/
theorem truncate_wf {q : List Nat} (size : Nat) (h : WF q = true) :
    WF (truncate q size) = true :=
  WF_take h _

example : WF [1, 3, 5, 7] = true ∧ truncate [1, 3, 5, 7] 4000 = [1] := by decide

/-- canonicalising keeps the set of selected chunks -/
theorem truncate_selected {q : List Nat} (size : Nat) (h : WF q = true) :
    ∀ c, Spec.selected size (truncate q size) c = Spec.selected size q c :=
  truncate_selected_aux h size

example : WF [0, 2, 5, 9] = true ∧ truncate [0, 2, 5, 9] 4000 = [0, 2, 5] ∧
    Spec.selected 4000 [0, 2, 5, 9] 3 = true ∧ Spec.selected 4000 [0, 2, 5, 9] 2 = false := by
  decide

/-- canonicalising is idempotent -/
theorem truncate_idempotent {q : List Nat} (size : Nat) (h : WF q = true) :
    truncate (truncate q size) size = truncate q size :=
  truncate_idempotent_aux h size

example : WF [0, 2, 3, 9] = true ∧ truncate [0, 2, 3, 9] 4000 = [0, 2, 3] := by decide

/-- the canonical query is a prefix of the boundary list -/
theorem truncate_prefix (q : List Nat) (size : Nat) :
    ∃ k, k ≤ q.length ∧ truncate q size = q.take k :=
  ⟨_, truncatedLen_le_length q size, rfl⟩

/-- every boundary of the canonical query except the last one lies strictly below the last
chunk `nChunks size - 1` … -/
theorem truncate_bounded (q : List Nat) (size : Nat) :
    ∀ b ∈ (truncate q size).dropLast, b < Spec.nChunks size - 1 :=
  truncate_bounded_init q size

/-- … and the last one is at most the last chunk when it is a closing boundary (even
length).  When the length is odd the last (opening) boundary can be anything:
`truncate [5] 4000 = [5]`, `truncate [5, 7] 4000 = [5]` with last chunk 3. -/
theorem truncate_bounded_closed {q : List Nat} (size : Nat) (h : WF q = true)
    (hev : (truncate q size).length % 2 = 0) :
    ∀ b ∈ truncate q size, b ≤ Spec.nChunks size - 1 :=
  truncate_bounded_even h size hev

example : WF [0, 2] = true ∧ (truncate [0, 2] 4000).length % 2 = 0 := by decide
example : truncate [5, 7] 4000 = [5] ∧ Spec.nChunks 4000 - 1 = 3 := by decide

/-- the canonical query is empty exactly when no chunk is selected -/
theorem truncate_empty_iff {q : List Nat} (size : Nat) (h : WF q = true) :
    truncate q size = [] ↔ ∀ c, Spec.selected size q c = false :=
  truncate_empty_iff_aux h size

example : WF ([] : List Nat) = true ∧ truncate [] 4000 = [] := by decide
example : WF [4, 6] = true ∧ truncate [4, 6] 4000 ≠ [] ∧ Spec.selected 4000 [4, 6] 3 = true := by
  decide

/-! ## `split` (`range_collections::split`) -/

/-- both halves of a split are well-formed -/
theorem split_wf {q : List Nat} (at_ : Nat) (h : WF q = true) :
    WF (split q at_).1 = true ∧ WF (split q at_).2 = true :=
  Ranges.split_wf h at_

/-- the left half agrees with `q` below the cut -/
theorem split_left_mem {q : List Nat} {at_ x : Nat} (h : WF q = true) (hx : x < at_) :
    contains (split q at_).1 x = contains q x :=
  split_left_contains h hx

/-- the right half agrees with `q` from the cut on -/
theorem split_right_mem {q : List Nat} {at_ x : Nat} (h : WF q = true) (hx : at_ ≤ x) :
    contains (split q at_).2 x = contains q x :=
  split_right_contains h hx

/-- every boundary of the left half lies below the cut (for any list), so the
`debug_assert!(a.boundaries().last() < Some(&mid))` in `split_inner` never fires -/
theorem split_left_bounded (q : List Nat) (at_ : Nat) : ∀ b ∈ (split q at_).1, b < at_ := by
  rw [split_fst]; exact lt_of_mem_take_countLt q at_

example : WF [1, 3, 5] = true ∧ split [1, 3, 5] 2 = ([1], [1, 3, 5]) ∧ (1 : Nat) < 2 ∧
    (2 : Nat) ≤ 4 := by decide

/-! ## `split_inner` (`src/lib.rs`) -/

/-- both halves of `split_inner` are well-formed -/
theorem splitInner_wf {q : List Nat} (start mid : Nat) (h : WF q = true) :
    WF (splitInner q start mid).1 = true ∧ WF (splitInner q start mid).2 = true :=
  ⟨fixAll_wf (Ranges.split_wf h mid).1 start, fixAll_wf (Ranges.split_wf h mid).2 mid⟩

/-- the left half agrees with `q` on `[start, mid)` (no `start ≤ mid` needed) -/
theorem splitInner_left_mem {q : List Nat} {start mid x : Nat} (h : WF q = true)
    (hs : start ≤ x) (hx : x < mid) :
    contains (splitInner q start mid).1 x = contains q x :=
  (fixAll_contains _ hs).trans (split_left_contains h hx)

/-- the right half agrees with `q` on `[mid, ∞)` -/
theorem splitInner_right_mem {q : List Nat} {start mid x : Nat} (h : WF q = true)
    (hx : mid ≤ x) :
    contains (splitInner q start mid).2 x = contains q x :=
  (fixAll_contains _ hx).trans (split_right_contains h hx)

/-- if the left half is reported as "all" then `q` covers `[start, mid)` -/
theorem splitInner_left_all {q : List Nat} {start mid : Nat} (h : WF q = true)
    (hall : (splitInner q start mid).1 = [0]) :
    ∀ x, start ≤ x → x < mid → contains q x = true :=
  fun _ hs hx => (split_left_contains h hx).symm.trans (fixAll_eq_all hall hs)

/-- if the right half is reported as "all" then `q` covers `[mid, ∞)` -/
theorem splitInner_right_all {q : List Nat} {start mid : Nat} (h : WF q = true)
    (hall : (splitInner q start mid).2 = [0]) :
    ∀ x, mid ≤ x → contains q x = true :=
  fun _ hx => (split_right_contains h hx).symm.trans (fixAll_eq_all hall hx)

example : WF [1, 9] = true ∧ splitInner [1, 9] 2 4 = ([0], [1, 9]) ∧ (2 : Nat) ≤ 3 ∧
    (3 : Nat) < 4 := by decide
example : WF [3] = true ∧ splitInner [3] 4 8 = ([0], [0]) := by decide

/-
## Status

Proved (axioms ⊆ {propext, Classical.choice, Quot.sound}):
  truncate_wf, truncate_selected, truncate_idempotent, truncate_prefix,
  truncate_bounded        (all boundaries but the last are `< nChunks size - 1`; no WF needed),
  truncate_bounded_closed (even length ⇒ all boundaries `≤ nChunks size - 1`),
  truncate_empty_iff,
  split_wf, split_left_mem, split_right_mem, split_left_bounded (the `debug_assert!` of `split_inner`),
  splitInner_wf, splitInner_left_mem, splitInner_right_mem   (hypothesis `start ≤ mid` not needed),
  splitInner_left_all, splitInner_right_all   (easy direction only).
Partial: none.
OPEN (not attempted, by instruction): the converse of `splitInner_left_all` / `_right_all`
  (needs the "q is minimal for the node" precondition).
-/

end Bao.C14
