import BaoProofs.Lemmas.OutboardL

/-!
# C03 — Outboards commit to BLAKE3: root = BLAKE3(data), pairs = subtree values

"For every byte string and block size, every way of creating an outboard returns exactly the
BLAKE3 hash of the data as root, and stores for every node it persists exactly the two chaining
values of that node's children in the BLAKE3 tree.  The outboard is exactly
(number of chunk groups - 1) * 64 bytes."

Everything holds for EVERY `hf : HashFns H` (no collision freedom), every blob `d` with
`d.length ≤ 2^63`, every `bs ≤ 10`, `tree = ⟨d.length, bs⟩`.

* `Spec.root hf d`            – the recursive BLAKE3 tree hash of the blob,
* `Spec.pair hf d k L`        – the chaining values of the two children of node `(k, L)`,
* `Spec.preOutboard/postOutboard hf d bs` – the 64-byte pairs of the persisted nodes in
  pre-order / post-order.

The ways of creating an outboard: `outboardPostOrder` (`outboard_post_order`, sequential writer),
`outboard` (`sync::outboard` / `fsm::outboard` into one of the five store kinds), and `initFrom`
(`CreateOutboard::init_from`, which `create` / `create_sized` call on a fresh store).
Hypotheses on the hash representation: `hlen` (a hash is 32 bytes) for everything positional,
`hrt` (`Hash::from(h.as_bytes()) = h`) only for reading back with `load`.
-/

namespace Bao.C03

open Bao Bao.Spec Bao.OutboardL

/-- a toy hash with 32-byte representation and round trip (for the non-vacuity examples) -/
def toyHash : HashFns UInt8 where
  chunkCv := fun c b r => b.foldl (· + ·) (UInt8.ofNat c + if r then 1 else 0)
  parentCv := fun l r f => l + 2 * r + if f then 1 else 0
  ofBytes := fun b => b.headD 0
  toBytes := fun h => List.replicate 32 h

theorem toy_len : ∀ h, (toyHash.toBytes h).length = 32 := fun _ => List.length_replicate ..
theorem toy_rt : ∀ h, toyHash.ofBytes (toyHash.toBytes h) = h := fun _ => rfl

/-- a 3000-byte blob: 3 chunks; at `bs = 1` two chunk groups, one persisted node -/
def toyBlob : List UInt8 := List.replicate 3000 7
theorem toy_length : toyBlob.length = 3000 := by simp only [toyBlob, List.length_replicate]
theorem toy_size : toyBlob.length ≤ 2 ^ 63 := by rw [toy_length]; decide
theorem toy_tree : (⟨3000, 1⟩ : Tree) = ⟨toyBlob.length, 1⟩ := by rw [toy_length]

/-! ## 1. the sequential post-order writer -/

/-- `outboard_post_order`: the stack machine over the post-order plan returns the BLAKE3 root and
writes exactly the post-order outboard -/
theorem post_order_writer {H : Type} (hf : HashFns H) (d : List UInt8) (bs : Nat)
    (hs : d.length ≤ 2 ^ 63) (hbs : bs ≤ 10) :
    outboardPostOrder hf d ⟨d.length, bs⟩
      = ⟨.ok (Spec.root hf d), Spec.postOutboard hf d bs⟩ :=
  writer_run hf d bs hs hbs

example : outboardPostOrder termHash toyBlob ⟨toyBlob.length, 1⟩
    = ⟨.ok (Spec.root termHash toyBlob), Spec.postOutboard termHash toyBlob 1⟩ :=
  post_order_writer termHash toyBlob 1 toy_size (by decide)

/-! ## 2. `outboard` into the five store kinds -/

/-- pre-order stores: `PreOrderOutboard<io>` (auto-extending backing, ANY initial content not
longer than the outboard: `[]` as `create_sized` uses, or a stale full-size store as `init_from`
may see) and `PreOrderMemOutboard` (backing of exactly the outboard size).  The root is BLAKE3 of
the data; the store keeps kind, root field and tree, and its backing becomes EXACTLY the pre-order
outboard: every stale byte is overwritten. -/
theorem outboard_store_pre {H : Type} (hf : HashFns H) (hlen : ∀ h, (hf.toBytes h).length = 32)
    (d : List UInt8) (bs : Nat) (hs : d.length ≤ 2 ^ 63) (hbs : bs ≤ 10) (ob : Store H)
    (htree : ob.tree = ⟨d.length, bs⟩)
    (hk : (ob.kind = .preIo ∧ ob.data.length ≤ ob.tree.outboardSize) ∨
          (ob.kind = .preMem ∧ ob.data.length = ob.tree.outboardSize)) :
    outboard hf d ob.tree ob
      = ⟨.ok (Spec.root hf d), { ob with data := Spec.preOutboard hf d bs }⟩ :=
  outboard_run_pre hf hlen d bs hs hbs ob htree hk

example : outboard toyHash toyBlob ⟨3000, 1⟩ ⟨.preIo, 0, ⟨3000, 1⟩, []⟩
    = ⟨.ok (Spec.root toyHash toyBlob),
       ⟨.preIo, 0, ⟨3000, 1⟩, Spec.preOutboard toyHash toyBlob 1⟩⟩ :=
  outboard_store_pre toyHash toy_len toyBlob 1 toy_size (by decide)
    ⟨.preIo, 0, ⟨3000, 1⟩, []⟩ toy_tree (.inl ⟨rfl, Nat.zero_le _⟩)

example : outboard toyHash toyBlob ⟨3000, 1⟩ ⟨.preMem, 0, ⟨3000, 1⟩, List.replicate 64 9⟩
    = ⟨.ok (Spec.root toyHash toyBlob),
       ⟨.preMem, 0, ⟨3000, 1⟩, Spec.preOutboard toyHash toyBlob 1⟩⟩ :=
  outboard_store_pre toyHash toy_len toyBlob 1 toy_size (by decide)
    ⟨.preMem, 0, ⟨3000, 1⟩, List.replicate 64 9⟩ toy_tree (.inr ⟨rfl, by decide⟩)

/-- post-order stores: `PostOrderOutboard<io>` and `PostOrderMemOutboard` -/
theorem outboard_store_post {H : Type} (hf : HashFns H) (hlen : ∀ h, (hf.toBytes h).length = 32)
    (d : List UInt8) (bs : Nat) (hs : d.length ≤ 2 ^ 63) (hbs : bs ≤ 10) (ob : Store H)
    (htree : ob.tree = ⟨d.length, bs⟩)
    (hk : (ob.kind = .postIo ∧ ob.data.length ≤ ob.tree.outboardSize) ∨
          (ob.kind = .postMem ∧ ob.data.length = ob.tree.outboardSize)) :
    outboard hf d ob.tree ob
      = ⟨.ok (Spec.root hf d), { ob with data := Spec.postOutboard hf d bs }⟩ :=
  outboard_run_post hf hlen d bs hs hbs ob htree hk

example : outboard toyHash toyBlob ⟨3000, 1⟩ ⟨.postIo, 0, ⟨3000, 1⟩, List.replicate 64 9⟩
    = ⟨.ok (Spec.root toyHash toyBlob),
       ⟨.postIo, 0, ⟨3000, 1⟩, Spec.postOutboard toyHash toyBlob 1⟩⟩ :=
  outboard_store_post toyHash toy_len toyBlob 1 toy_size (by decide)
    ⟨.postIo, 0, ⟨3000, 1⟩, List.replicate 64 9⟩ toy_tree (.inl ⟨rfl, by decide⟩)

/-- `EmptyOutboard`: the root is BLAKE3 of the data, nothing is stored (no hypothesis on the byte
representation is needed) -/
theorem outboard_store_empty {H : Type} (hf : HashFns H)
    (d : List UInt8) (bs : Nat) (hs : d.length ≤ 2 ^ 63) (hbs : bs ≤ 10) (ob : Store H)
    (htree : ob.tree = ⟨d.length, bs⟩) (hk : ob.kind = .empty) :
    outboard hf d ob.tree ob = ⟨.ok (Spec.root hf d), ob⟩ :=
  outboard_run_empty hf d bs hs hbs ob htree hk

example : outboard termHash toyBlob ⟨3000, 1⟩ ⟨.empty, .raw [], ⟨3000, 1⟩, []⟩
    = ⟨.ok (Spec.root termHash toyBlob), ⟨.empty, .raw [], ⟨3000, 1⟩, []⟩⟩ :=
  outboard_store_empty termHash toyBlob 1 toy_size (by decide)
    ⟨.empty, .raw [], ⟨3000, 1⟩, []⟩ toy_tree rfl

/-! ## 3. size, and `init_from` -/

/-- the outboard is exactly `(chunk groups − 1) · 64` bytes (`= BaoTree::outboard_size`), in either
order -/
theorem size {H : Type} (hf : HashFns H) (hlen : ∀ h, (hf.toBytes h).length = 32)
    (d : List UInt8) (bs : Nat) (hs : d.length ≤ 2 ^ 63) (hbs : bs ≤ 10) :
    (Spec.preOutboard hf d bs).length = (Tree.blocks ⟨d.length, bs⟩ - 1) * 64 ∧
    (Spec.postOutboard hf d bs).length = (Tree.blocks ⟨d.length, bs⟩ - 1) * 64 ∧
    (Tree.blocks ⟨d.length, bs⟩ - 1) * 64 = Tree.outboardSize ⟨d.length, bs⟩ ∧
    Tree.blocks ⟨d.length, bs⟩ = Spec.nBlocks d.length bs :=
  ⟨preOutboard_length hf hlen d bs hs hbs, postOutboard_length hf hlen d bs hs hbs, rfl,
    C12.blocks_spec _ _⟩

example : (Spec.preOutboard toyHash toyBlob 1).length = (Tree.blocks ⟨toyBlob.length, 1⟩ - 1) * 64 :=
  (size toyHash toy_len toyBlob 1 toy_size (by decide)).1

/-- `CreateOutboard::init_from` on a pre-order store: backing := pre-order outboard,
root := BLAKE3 root -/
theorem init_from_pre {H : Type} (hf : HashFns H) (hlen : ∀ h, (hf.toBytes h).length = 32)
    (d : List UInt8) (bs : Nat) (hs : d.length ≤ 2 ^ 63) (hbs : bs ≤ 10) (ob : Store H)
    (htree : ob.tree = ⟨d.length, bs⟩)
    (hk : (ob.kind = .preIo ∧ ob.data.length ≤ ob.tree.outboardSize) ∨
          (ob.kind = .preMem ∧ ob.data.length = ob.tree.outboardSize)) :
    initFrom hf d ob
      = .ok { ob with data := Spec.preOutboard hf d bs, root := Spec.root hf d } := by
  unfold initFrom
  rw [outboard_run_pre hf hlen d bs hs hbs ob htree hk]

example : initFrom toyHash toyBlob ⟨.preIo, 0, ⟨3000, 1⟩, []⟩
    = .ok ⟨.preIo, Spec.root toyHash toyBlob, ⟨3000, 1⟩, Spec.preOutboard toyHash toyBlob 1⟩ :=
  init_from_pre toyHash toy_len toyBlob 1 toy_size (by decide)
    ⟨.preIo, 0, ⟨3000, 1⟩, []⟩ toy_tree (.inl ⟨rfl, Nat.zero_le _⟩)

/-- … on a post-order store -/
theorem init_from_post {H : Type} (hf : HashFns H) (hlen : ∀ h, (hf.toBytes h).length = 32)
    (d : List UInt8) (bs : Nat) (hs : d.length ≤ 2 ^ 63) (hbs : bs ≤ 10) (ob : Store H)
    (htree : ob.tree = ⟨d.length, bs⟩)
    (hk : (ob.kind = .postIo ∧ ob.data.length ≤ ob.tree.outboardSize) ∨
          (ob.kind = .postMem ∧ ob.data.length = ob.tree.outboardSize)) :
    initFrom hf d ob
      = .ok { ob with data := Spec.postOutboard hf d bs, root := Spec.root hf d } := by
  unfold initFrom
  rw [outboard_run_post hf hlen d bs hs hbs ob htree hk]

example : initFrom toyHash toyBlob ⟨.postMem, 0, ⟨3000, 1⟩, List.replicate 64 9⟩
    = .ok ⟨.postMem, Spec.root toyHash toyBlob, ⟨3000, 1⟩, Spec.postOutboard toyHash toyBlob 1⟩ :=
  init_from_post toyHash toy_len toyBlob 1 toy_size (by decide)
    ⟨.postMem, 0, ⟨3000, 1⟩, List.replicate 64 9⟩ toy_tree (.inr ⟨rfl, by decide⟩)

/-- … on the `EmptyOutboard`: only the root is set -/
theorem init_from_empty {H : Type} (hf : HashFns H)
    (d : List UInt8) (bs : Nat) (hs : d.length ≤ 2 ^ 63) (hbs : bs ≤ 10) (ob : Store H)
    (htree : ob.tree = ⟨d.length, bs⟩) (hk : ob.kind = .empty) :
    initFrom hf d ob = .ok { ob with root := Spec.root hf d } := by
  unfold initFrom
  rw [outboard_run_empty hf d bs hs hbs ob htree hk]

example : initFrom termHash toyBlob ⟨.empty, .raw [], ⟨3000, 1⟩, []⟩
    = .ok ⟨.empty, Spec.root termHash toyBlob, ⟨3000, 1⟩, []⟩ :=
  init_from_empty termHash toyBlob 1 toy_size (by decide)
    ⟨.empty, .raw [], ⟨3000, 1⟩, []⟩ toy_tree rfl

/-! ## 4. reading back -/

/-- on a store holding the outboard of its kind (as produced by 2./3.), `load` of a persisted node
returns exactly the two chaining values of its children in the BLAKE3 tree — in both flavours
(`persistedPre` and `persistedPost` hold the same nodes: `persisted_same_nodes`) -/
theorem load_spec {H : Type} (hf : HashFns H) (hlen : ∀ h, (hf.toBytes h).length = 32)
    (hrt : ∀ h, hf.ofBytes (hf.toBytes h) = h) (d : List UInt8) (bs : Nat)
    (hs : d.length ≤ 2 ^ 63) (hbs : bs ≤ 10) (fl : Flavour) (ob : Store H)
    (htree : ob.tree = ⟨d.length, bs⟩)
    (hk : ((ob.kind = .preIo ∨ ob.kind = .preMem) ∧ ob.data = Spec.preOutboard hf d bs) ∨
          ((ob.kind = .postIo ∨ ob.kind = .postMem) ∧ ob.data = Spec.postOutboard hf d bs))
    (x : Nat) (hx : x ∈ Spec.persistedPre d.length bs) :
    ob.load hf fl x = .ok (some (Spec.pair hf d (indexOf x) (levelOf x))) :=
  load_persisted hf hlen hrt d bs hs hbs fl ob htree hk x hx

example : (⟨.preIo, 0, ⟨3000, 1⟩, Spec.preOutboard toyHash toyBlob 1⟩ : Store UInt8).load
      toyHash .fsm 1
    = .ok (some (Spec.pair toyHash toyBlob (indexOf 1) (levelOf 1))) :=
  load_spec toyHash toy_len toy_rt toyBlob 1 toy_size (by decide) .fsm
    ⟨.preIo, 0, ⟨3000, 1⟩, Spec.preOutboard toyHash toyBlob 1⟩ toy_tree (.inl ⟨.inl rfl, by simp only⟩) 1
    (by rw [toy_length]; decide)

theorem persisted_same_nodes (size bs : Nat) (hs : size ≤ 2 ^ 63) (x : Nat) :
    x ∈ Spec.persistedPost size bs ↔ x ∈ Spec.persistedPre size bs :=
  (persistedPost_perm size bs hs).mem_iff

example : 1 ∈ Spec.persistedPost 3000 1 ↔ 1 ∈ Spec.persistedPre 3000 1 :=
  persisted_same_nodes 3000 1 (by decide) 1

/-- nodes below the block size, and the half-filled last leaf, are not stored: `load` gives `None`
(any store of the four non-empty kinds, whatever its backing) -/
theorem load_none_spec {H : Type} (hf : HashFns H) (d : List UInt8) (bs : Nat)
    (hs : d.length ≤ 2 ^ 63) (hbs : bs ≤ 10) (fl : Flavour) (ob : Store H)
    (htree : ob.tree = ⟨d.length, bs⟩) (hk : ob.kind ≠ .empty) (x : Nat)
    (hx : Node.level x < bs ∨ (Tree.blocks ⟨d.length, bs⟩ % 2 = 1 ∧
      x = Node.subBs (Tree.blocks ⟨d.length, bs⟩ - 1) bs)) :
    ob.load hf fl x = .ok none :=
  load_unstored hf d bs hs hbs fl ob htree hk x hx

example : (⟨.postMem, 0, ⟨3000, 1⟩, []⟩ : Store UInt8).load toyHash .sync 0 = .ok none :=
  load_none_spec toyHash toyBlob 1 toy_size (by decide) .sync ⟨.postMem, 0, ⟨3000, 1⟩, []⟩ toy_tree
    (by decide) 0 (.inl (by decide))

end Bao.C03

/-
Status.
PROVED (full strength; every `hf : HashFns H`, NO collision-freedom; `d.length ≤ 2^63`, `bs ≤ 10`):
  * `post_order_writer`   — `outboardPostOrder hf d ⟨d.length, bs⟩ = ⟨.ok (Spec.root hf d), Spec.postOutboard hf d bs⟩`.
  * `outboard_store_pre`  — `preIo` (any initial backing of length ≤ outboardSize, e.g. `[]` or a stale
                            full-size one) and `preMem` (length = outboardSize): result
                            `⟨.ok (Spec.root hf d), { ob with data := Spec.preOutboard hf d bs }⟩`  (needs `hlen`).
  * `outboard_store_post` — same for `postIo` / `postMem` with `Spec.postOutboard`  (needs `hlen`).
  * `outboard_store_empty`— `empty`: root = `Spec.root`, store unchanged (no `hlen`).
  * `size`                — both outboards have `(blocks - 1) * 64 = outboardSize` bytes, `blocks = Spec.nBlocks`.
  * `init_from_pre/post/empty` — `initFrom` = the above plus `root := Spec.root hf d`.
  * `load_spec`           — `load` (sync and fsm) of a persisted node from a store holding the outboard of
                            its kind = `.ok (some (Spec.pair hf d (indexOf x) (levelOf x)))`  (needs `hlen`, `hrt`).
  * `load_none_spec`      — level < bs, or the half leaf: `.ok none` (four non-empty kinds).
  * `persisted_same_nodes`— `persistedPost` and `persistedPre` hold the same nodes.
PARTIAL: none.   OPEN: none.
Lemmas: `BaoProofs/Lemmas/OutboardL.lean` (`run_sub` = the induction along `planRec`; `obGen` = both
loops as one, parametric in what is done with a finished pair) and `BaoProofs/Lemmas/WriteAtL.lean`
(`applyWrites_perm`: positional 64-byte writes in any order of a slot bijection overwrite every
stale byte).
Remarks on the model (no statement above is affected):
  * the bound "initial backing not longer than outboardSize" for the io kinds is sharp: `writeAt` never
    truncates, so `outboard` / `initFrom` over a LONGER stale `preIo`/`postIo` backing leaves the stale
    tail behind (e.g. size 0, 64 stale bytes: data stays 64 bytes, `Spec.postOutboard = []`).
  * `load` on the `empty` kind returns a pair of zero hashes for relevant nodes, so `load_spec` has no
    analogue there (by design of `EmptyOutboard`).
  * `outboard` does not touch the store's `root` field (it returns the root); only `initFrom` sets it.
-/
