import BaoProofs.Lemmas.FaultL
import BaoProofs.Lemmas.FaultPlan

/-!
# C10: IO failures surface as errors at every operation index (decode driver)

"If the k-th operation on any underlying reader, writer, data source or outboard fails, the public
operation using it reports that failure, never a panic, success or hash mismatch, and it performs
no further operation on the failed object.  Whatever was emitted or stored before the failure is a
prefix of what the fault-free run emits or stores."

This file treats `decode_ranges` (`sync::decode_ranges` / `fsm::decode_ranges`), whose fault-aware
model is `decodeRangesF hf fl stream query sink fw fs`: the `fw`-th write call on the target or the
`fs`-th save call on the outboard of this run (0-based) fails with the injected error
`injected = .err (.io ⟨.other, true⟩)` and has no effect.  All statements are for every hash
instance `hf`, flavour `fl`, stream `s` (honest or not), query `q` and sink.

Vocabulary (`BaoProofs/Lemmas/FaultL.lean`):
* `callLog hf fl s q sink : List (Ev H) × DecEnd` – an instrumented twin of the fault-free run: the
  calls it makes on the target (`.write off data`) and on the outboard (`.save node l r`; every
  call, also one that fails by itself – that one is then the last), and its terminal;
* `writes`, `saves` – the two projections of a log; `applyWrites target ws` / `applySaves hf ob ss`
  – performing a list of calls on a target / outboard (`saveOrKeep`: a failing save has no effect);
* `beforeWrite k log` / `beforeSave k log` – the calls that precede the `k`-th write / save call.
-/

namespace Bao.C10

open Bao Bao.FaultL

variable {H : Type}

/-- the write calls `(offset, data)` of the fault-free run, in order -/
def writeCalls (hf : HashFns H) [BEq H] (fl : Flavour) (s : List UInt8) (q : Ranges) (sink : Sink H) :
    List (Nat × List UInt8) := writes (callLog hf fl s q sink).1

/-- the save calls `(node, l, r)` of the fault-free run, in order -/
def saveCalls (hf : HashFns H) [BEq H] (fl : Flavour) (s : List UInt8) (q : Ranges) (sink : Sink H) :
    List (Nat × H × H) := saves (callLog hf fl s q sink).1

/-- number of save calls that precede the `k`-th write call of the fault-free run -/
def savesBeforeWrite (hf : HashFns H) [BEq H] (fl : Flavour) (s : List UInt8) (q : Ranges)
    (sink : Sink H) (k : Nat) : Nat := (saves (beforeWrite k (callLog hf fl s q sink).1)).length

/-- number of write calls that precede the `k`-th save call of the fault-free run -/
def writesBeforeSave (hf : HashFns H) [BEq H] (fl : Flavour) (s : List UInt8) (q : Ranges)
    (sink : Sink H) (k : Nat) : Nat := (writes (beforeSave k (callLog hf fl s q sink).1)).length

/-! ## examples: a 1500-byte blob under a hash that accepts everything -/

/-- a hash instance under which every stream is honest (all hashes are 0) -/
def triv : HashFns Nat := ⟨fun _ _ _ => 0, fun _ _ _ => 0, fun _ => 0, fun _ => List.replicate 32 7⟩

/-- in-memory pre-order outboard of a 1500-byte blob (one parent), empty target -/
def sink0 : Sink Nat := ⟨⟨.preMem, 0, ⟨1500, 0⟩, List.replicate 64 0⟩, []⟩

/-- parent pair + two leaves -/
def strm : List UInt8 := List.replicate 1564 1

/-- the fault-free run makes one save call and two write calls and ends with `done` -/
example : (saveCalls triv .sync strm [0] sink0).length = 1 ∧
    (writeCalls triv .sync strm [0] sink0).map (fun w => (w.1, w.2.length)) = [(0, 1024), (1024, 476)] ∧
    (callLog triv .sync strm [0] sink0).2 = .done ∧
    savesBeforeWrite triv .sync strm [0] sink0 1 = 1 ∧
    writesBeforeSave triv .sync strm [0] sink0 0 = 0 := by decide +kernel

/-! ## the fault-free run and its log -/

/-- the log is sound: the fault-free run ends with the log's terminal, a target on which exactly
the write calls were performed and an outboard on which exactly the save calls were performed -/
theorem log_sound (hf : HashFns H) [BEq H] (fl : Flavour) (s : List UInt8) (q : Ranges)
    (sink : Sink H) :
    (decodeRangesF hf fl s q sink none none).2 = (callLog hf fl s q sink).2 ∧
    (decodeRangesF hf fl s q sink none none).1.target =
      applyWrites sink.target (writeCalls hf fl s q sink) ∧
    (decodeRangesF hf fl s q sink none none).1.ob =
      applySaves hf sink.ob (saveCalls hf fl s q sink) := by
  rw [decodeRangesF_eq, cut_none_none]
  exact ⟨rfl, applyEvs_target .., applyEvs_ob ..⟩

/-- the log agrees with the logs the plain model `decodeRanges` keeps: same saved nodes, same
`(offset, length)` of the writes except that the sync flavour makes no call for an empty leaf,
same terminal -/
theorem log_model (hf : HashFns H) [BEq H] (fl : Flavour) (s : List UInt8) (q : Ranges)
    (sink : Sink H) :
    (saveCalls hf fl s q sink).map (·.1) = (decodeRanges hf fl s q sink).saves ∧
    (writeCalls hf fl s q sink).map (fun w => (w.1, w.2.length)) =
      (decodeRanges hf fl s q sink).writes.filter (fun p => !(fl == .sync && p.2 == 0)) ∧
    (callLog hf fl s q sink).2 = (decodeRanges hf fl s q sink).terminal :=
  logAux_model hf fl _ _ _ sink sink rfl

/-- `decodeRangesF … none none` against `decodeRanges`: terminal and final outboard always
coincide -/
theorem no_fault_ob_terminal (hf : HashFns H) [BEq H] (fl : Flavour) (s : List UInt8) (q : Ranges)
    (sink : Sink H) :
    (decodeRangesF hf fl s q sink none none).1.ob = (decodeRanges hf fl s q sink).sink.ob ∧
    (decodeRangesF hf fl s q sink none none).2 = (decodeRanges hf fl s q sink).terminal :=
  faux_none_ob_term hf fl _ _ _ sink sink rfl 0 0 [] []

/-- … and so does the final target – i.e. the two runs are equal – in the fsm flavour, and in the
sync flavour provided every empty leaf write logged by `decodeRanges` is at offset 0 (the only
documented difference: sync makes no call `write_all_at(off, [])`, and
`writeAt t off [] = t ++ zeros` when `t` is shorter than `off`, but `writeAt t 0 [] = t`).
For every supported blob size the hypothesis holds: see `no_fault_eq_wf`. -/
theorem no_fault_eq (hf : HashFns H) [BEq H] (fl : Flavour) (s : List UInt8) (q : Ranges)
    (sink : Sink H)
    (h : fl = .sync → ∀ p ∈ (decodeRanges hf fl s q sink).writes, p.2 = 0 → p.1 = 0) :
    decodeRangesF hf fl s q sink none none =
      ((decodeRanges hf fl s q sink).sink, (decodeRanges hf fl s q sink).terminal) :=
  faux_none_eq hf fl _ _ _ sink 0 0 h

theorem no_fault_eq_fsm (hf : HashFns H) [BEq H] (s : List UInt8) (q : Ranges) (sink : Sink H) :
    decodeRangesF hf .fsm s q sink none none =
      ((decodeRanges hf .fsm s q sink).sink, (decodeRanges hf .fsm s q sink).terminal) :=
  no_fault_eq hf .fsm s q sink (fun h => by cases h)

/-- for every blob size the crate supports (`≤ 2^63`; any block size, any stream, any query) the
only empty leaf of a response plan is the single leaf of the empty blob, at offset 0; hence the
fault-free faulty driver IS the plain driver: same sink, same terminal -/
theorem no_fault_eq_wf (hf : HashFns H) [BEq H] (fl : Flavour) (s : List UInt8) (q : Ranges)
    (sink : Sink H) (hs : sink.ob.tree.size ≤ 2 ^ 63) :
    decodeRangesF hf fl s q sink none none =
      ((decodeRanges hf fl s q sink).sink, (decodeRanges hf fl s q sink).terminal) :=
  no_fault_eq hf fl s q sink
    (fun _ => FaultPlan.decodeRanges_empty_writes hf fl s q sink hs)

example : sink0.ob.tree.size ≤ 2 ^ 63 := by decide

/-- the hypothesis of `no_fault_eq` holds for the example, and for the empty blob (one empty leaf
at offset 0, which the sync flavour does not write) -/
example : (∀ p ∈ (decodeRanges triv .sync strm [0] sink0).writes, p.2 = 0 → p.1 = 0) ∧
    (decodeRanges triv .sync [] [0] ⟨⟨.preMem, 0, ⟨0, 0⟩, []⟩, [5]⟩).writes = [(0, 0)] ∧
    writeCalls triv .sync [] [0] ⟨⟨.preMem, 0, ⟨0, 0⟩, []⟩, [5]⟩ = [] := by decide +kernel

/-! ## a failing target write -/

/-- the `k`-th write call fails (`k <` number of write calls of the fault-free run): the run
reports the injected error (not `done`, not a hash mismatch, not a panic); the target received
exactly the first `k` writes of the fault-free run; the outboard received exactly the saves that
precede write `k` in the fault-free run, a prefix of the fault-free saves -/
theorem fault_write (hf : HashFns H) [BEq H] (fl : Flavour) (s : List UInt8) (q : Ranges)
    (sink : Sink H) (k : Nat) (hk : k < (writeCalls hf fl s q sink).length) :
    (decodeRangesF hf fl s q sink (some k) none).2 = .err (.io ⟨.other, true⟩) ∧
    (decodeRangesF hf fl s q sink (some k) none).1.target =
      applyWrites sink.target ((writeCalls hf fl s q sink).take k) ∧
    (decodeRangesF hf fl s q sink (some k) none).1.ob =
      applySaves hf sink.ob ((saveCalls hf fl s q sink).take (savesBeforeWrite hf fl s q sink k)) ∧
    savesBeforeWrite hf fl s q sink k ≤ (saveCalls hf fl s q sink).length := by
  have hp := saves_prefix (beforeWrite_prefix k (callLog hf fl s q sink).1)
  have hk : k < (writes (callLog hf fl s q sink).1).length := hk
  rw [decodeRangesF_eq, cut_write k 0 0 _ (Nat.zero_le _)]
  simp only [Nat.sub_zero]
  rw [if_pos hk]
  refine ⟨rfl, ?_, ?_, hp.length_le⟩
  · rw [applyEvs_target, writes_beforeWrite]; rfl
  · rw [applyEvs_ob, prefix_eq_take hp]; rfl

/-- a write fault beyond the last write call is never triggered -/
theorem fault_write_ge (hf : HashFns H) [BEq H] (fl : Flavour) (s : List UInt8) (q : Ranges)
    (sink : Sink H) (k : Nat) (hk : (writeCalls hf fl s q sink).length ≤ k) :
    decodeRangesF hf fl s q sink (some k) none = decodeRangesF hf fl s q sink none none := by
  rw [decodeRangesF_eq, decodeRangesF_eq, cut_none_none, cut_write k 0 0 _ (Nat.zero_le _)]
  simp only [Nat.sub_zero]
  rw [if_neg (by unfold writeCalls at hk; omega)]

example : (1 : Nat) < (writeCalls triv .sync strm [0] sink0).length ∧
    (2 : Nat) ≥ (writeCalls triv .sync strm [0] sink0).length := by decide +kernel

/-! ## a failing outboard save -/

/-- the `k`-th save call fails (`k <` number of save calls of the fault-free run): the run reports
the injected error; the outboard received exactly the first `k` saves of the fault-free run; the
target received exactly the writes that precede save `k`, a prefix of the fault-free writes -/
theorem fault_save (hf : HashFns H) [BEq H] (fl : Flavour) (s : List UInt8) (q : Ranges)
    (sink : Sink H) (k : Nat) (hk : k < (saveCalls hf fl s q sink).length) :
    (decodeRangesF hf fl s q sink none (some k)).2 = .err (.io ⟨.other, true⟩) ∧
    (decodeRangesF hf fl s q sink none (some k)).1.ob =
      applySaves hf sink.ob ((saveCalls hf fl s q sink).take k) ∧
    (decodeRangesF hf fl s q sink none (some k)).1.target =
      applyWrites sink.target ((writeCalls hf fl s q sink).take (writesBeforeSave hf fl s q sink k)) ∧
    writesBeforeSave hf fl s q sink k ≤ (writeCalls hf fl s q sink).length := by
  have hp := writes_prefix (beforeSave_prefix k (callLog hf fl s q sink).1)
  have hk : k < (saves (callLog hf fl s q sink).1).length := hk
  rw [decodeRangesF_eq, cut_save k 0 0 _ (Nat.zero_le _)]
  simp only [Nat.sub_zero]
  rw [if_pos hk]
  refine ⟨rfl, ?_, ?_, hp.length_le⟩
  · rw [applyEvs_ob, saves_beforeSave]; rfl
  · rw [applyEvs_target, prefix_eq_take hp]; rfl

/-- a save fault beyond the last save call is never triggered -/
theorem fault_save_ge (hf : HashFns H) [BEq H] (fl : Flavour) (s : List UInt8) (q : Ranges)
    (sink : Sink H) (k : Nat) (hk : (saveCalls hf fl s q sink).length ≤ k) :
    decodeRangesF hf fl s q sink none (some k) = decodeRangesF hf fl s q sink none none := by
  rw [decodeRangesF_eq, decodeRangesF_eq, cut_none_none, cut_save k 0 0 _ (Nat.zero_le _)]
  simp only [Nat.sub_zero]
  rw [if_neg (by unfold saveCalls at hk; omega)]

example : (0 : Nat) < (saveCalls triv .sync strm [0] sink0).length ∧
    (1 : Nat) ≥ (saveCalls triv .sync strm [0] sink0).length := by decide +kernel

/-! ## any fault script -/

/-- for every script `(fw, fs)` (also both at once): the calls completed are a prefix of the
fault-free call log, the sink is the initial sink with exactly these calls performed, and the
terminal is either the injected error (the prefix is then proper: the failing call and everything
after it did not happen) or, if no call failed, the run is the fault-free run -/
theorem fault_prefix (hf : HashFns H) [BEq H] (fl : Flavour) (s : List UInt8) (q : Ranges)
    (sink : Sink H) (fw fs : Option Nat) :
    (∃ pre, pre <+: (callLog hf fl s q sink).1 ∧ pre.length < (callLog hf fl s q sink).1.length ∧
      decodeRangesF hf fl s q sink fw fs = (applyEvs hf sink pre, .err (.io ⟨.other, true⟩))) ∨
    decodeRangesF hf fl s q sink fw fs = decodeRangesF hf fl s q sink none none := by
  rw [decodeRangesF_eq, decodeRangesF_eq hf fl s q sink none none, cut_none_none]
  cases hc : cut fw fs 0 0 (callLog hf fl s q sink).1 with
  | none => exact Or.inr rfl
  | some pre => exact Or.inl ⟨pre, cut_prefix _ _ _ _ _ _ hc, cut_length_lt _ _ _ _ _ _ hc, rfl⟩

/-- no fault turns into a panic: if the fault-free run does not panic, no faulty run does -/
theorem fault_no_panic (hf : HashFns H) [BEq H] (fl : Flavour) (s : List UInt8) (q : Ranges)
    (sink : Sink H) (fw fs : Option Nat)
    (h : (decodeRangesF hf fl s q sink none none).2 ≠ .panic) :
    (decodeRangesF hf fl s q sink fw fs).2 ≠ .panic := by
  rcases fault_prefix hf fl s q sink fw fs with ⟨pre, _, _, he⟩ | he
  · rw [he]; exact fun h => by cases h
  · rw [he]; exact h

/-- a faulty run ends with the injected error or with the fault-free terminal – in particular a
fault is never reported as a hash mismatch or as success unless the fault-free run says so -/
theorem fault_terminal (hf : HashFns H) [BEq H] (fl : Flavour) (s : List UInt8) (q : Ranges)
    (sink : Sink H) (fw fs : Option Nat) :
    (decodeRangesF hf fl s q sink fw fs).2 = .err (.io ⟨.other, true⟩) ∨
    (decodeRangesF hf fl s q sink fw fs).2 = (decodeRangesF hf fl s q sink none none).2 := by
  rcases fault_prefix hf fl s q sink fw fs with ⟨pre, _, _, he⟩ | he
  · rw [he]; exact Or.inl rfl
  · rw [he]; exact Or.inr rfl

example : (decodeRangesF triv .sync strm [0] sink0 none none).2 ≠ .panic := by decide +kernel

/-!
## Status (C10, decode driver `decodeRangesF`)

proved, for every `hf`, flavour, stream, query, sink:
* `log_sound`, `log_model` – the instrumented call log `callLog` is the fault-free run, and agrees
  with the `writes` / `saves` logs of the plain model `decodeRanges`;
* `no_fault_ob_terminal` (unconditional), `no_fault_eq` (sync: under "empty leaf writes are at
  offset 0"), `no_fault_eq_fsm` (unconditional), `no_fault_eq_wf` (blob size `≤ 2^63`: hypothesis
  discharged from the plan geometry) – `decodeRangesF … none none` vs `decodeRanges`;
* `fault_write`, `fault_write_ge`, `fault_save`, `fault_save_ge` – the k-th write / save fails;
* `fault_prefix`, `fault_terminal`, `fault_no_panic` – any script `(fw, fs)`, also both at once.

"no further operation on the failed object": in the model the run stops at the failing call
(`fault_prefix`: the calls performed are a proper prefix of the fault-free log), so there is no
later call on either object.

not covered here: faults of the stream reader (the `r` object; a failing exact read is the
`.error` branch of `Dec.next`, reported as `…NotFound` / `Io`), and the other operations (encode,
outboard creation, copy, validate); `decodeRangesF` models only target and outboard faults.

model remarks:
* a save that fails by itself (`Store.save` → `.err`, e.g. `invalidInput` of a `preMem` store
  without a slot) counts as a save call: `fs = some k` pointing at it reports the injected error
  instead of the store's own error (`fault_save` with `k` = its index); it is logged in `saveCalls`
  and is a no-op in `applySaves`.
* for a blob size `> 2^63` (outside the crate's range) the sync flavour of `decodeRangesF … none none`
  and `decodeRanges` are only proved equal under the explicit hypothesis of `no_fault_eq`.
-/

end Bao.C10
