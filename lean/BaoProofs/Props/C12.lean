import BaoProofs.Lemmas.Offsets

/-!
# C12 — pre-order and post-order offsets enumerate the persisted nodes

"For every blob size and block size, the pre-order and the post-order offset functions each map
the nodes an outboard persists one-to-one onto 0..(chunk groups - 1), in exactly the order in which
the corresponding traversal visits them, and map the other nodes of the tree (those below the
block size and the half-filled last leaf) to nothing."

`Spec.persistedPre size bs` / `Spec.persistedPost size bs` are the recursive pre-order / post-order
lists of the nodes of level `≥ bs` that exist in the blob.  The theorems say: the list has
`blocks - 1` entries and the `i`-th entry is mapped to `i` (hence one-to-one and onto
`0 … blocks-2`, in traversal order).
-/

namespace Bao.C12

open Bao Bao.Offsets

/-- pre-order: `persistedPre[i] ↦ i`, and there are `blocks - 1` persisted nodes -/
theorem pre (size bs : Nat) (hs : size ≤ 2 ^ 63) (_hbs : bs ≤ 10) :
    let P := Spec.persistedPre size bs
    P.length = Tree.blocks ⟨size, bs⟩ - 1 ∧
    (∀ i (h : i < P.length), Tree.preOrderOffset ⟨size, bs⟩ P[i] = some i) := by
  obtain ⟨hlen, hmap⟩ := persistedPre_offsets size bs hs
  refine ⟨hlen, fun i h => ?_⟩
  have := getElem_of_map_eq_range _ _ 0 hmap i h
  rwa [Nat.zero_add] at this

example : Tree.preOrderOffset ⟨20000, 1⟩ (Spec.persistedPre 20000 1)[3] = some 3 :=
  (pre 20000 1 (by decide) (by decide)).2 3 (by decide)

/-- post-order: `persistedPost[i] ↦ i` (whether stable or unstable) -/
theorem post (size bs : Nat) (hs : size ≤ 2 ^ 63) (_hbs : bs ≤ 10) :
    let P := Spec.persistedPost size bs
    P.length = Tree.blocks ⟨size, bs⟩ - 1 ∧
    (∀ i (h : i < P.length),
      (Tree.postOrderOffset ⟨size, bs⟩ P[i]).map Tree.PostOffset.value = some i) := by
  obtain ⟨hlen, hmap⟩ := persistedPost_offsets size bs hs
  refine ⟨hlen, fun i h => ?_⟩
  have := getElem_of_map_eq_range _
    (fun x => (Tree.postOrderOffset ⟨size, bs⟩ x).map Tree.PostOffset.value) 0 hmap i h
  rwa [Nat.zero_add] at this

example : (Tree.postOrderOffset ⟨20000, 1⟩ (Spec.persistedPost 20000 1)[3]).map
    Tree.PostOffset.value = some 3 :=
  (post 20000 1 (by decide) (by decide)).2 3 (by decide)

/-- nodes below the block size, and the half-filled last leaf, have no pre-order offset -/
theorem pre_none (size bs : Nat) (hs : size ≤ 2 ^ 63) (hbs : bs ≤ 10) :
    (∀ x, Node.level x < bs → Tree.preOrderOffset ⟨size, bs⟩ x = none) ∧
    (Tree.blocks ⟨size, bs⟩ % 2 = 1 →
      Tree.preOrderOffset ⟨size, bs⟩ (Node.subBs (Tree.blocks ⟨size, bs⟩ - 1) bs) = none) := by
  refine ⟨fun x h => ?_, pre_half_leaf size bs hs hbs⟩
  unfold Tree.preOrderOffset
  simp only [addBs_none_of_level_lt h (by omega)]

example : Tree.preOrderOffset ⟨20000, 2⟩ 1 = none ∧
    Tree.preOrderOffset ⟨20000, 2⟩ (Node.subBs (Tree.blocks ⟨20000, 2⟩ - 1) 2) = none :=
  ⟨(pre_none 20000 2 (by decide) (by decide)).1 1 (by decide),
   (pre_none 20000 2 (by decide) (by decide)).2 (by decide)⟩

/-- nodes below the block size, and the half-filled last leaf, have no post-order offset -/
theorem post_none (size bs : Nat) (hs : size ≤ 2 ^ 63) (hbs : bs ≤ 10) :
    (∀ x, Node.level x < bs → Tree.postOrderOffset ⟨size, bs⟩ x = none) ∧
    (Tree.blocks ⟨size, bs⟩ % 2 = 1 →
      Tree.postOrderOffset ⟨size, bs⟩ (Node.subBs (Tree.blocks ⟨size, bs⟩ - 1) bs) = none) := by
  refine ⟨fun x h => ?_, post_half_leaf size bs hs hbs⟩
  unfold Tree.postOrderOffset
  simp only [addBs_none_of_level_lt h (by omega)]

example : Tree.postOrderOffset ⟨20000, 2⟩ 1 = none ∧
    Tree.postOrderOffset ⟨20000, 2⟩ (Node.subBs (Tree.blocks ⟨20000, 2⟩ - 1) 2) = none :=
  ⟨(post_none 20000 2 (by decide) (by decide)).1 1 (by decide),
   (post_none 20000 2 (by decide) (by decide)).2 (by decide)⟩

/-- one-to-one: two positions of the pre-order list holding the same node are the same position
(so together with `pre` the offset function is a bijection `persisted nodes → {0 … blocks-2}`) -/
theorem pre_injective (size bs : Nat) (hs : size ≤ 2 ^ 63) (hbs : bs ≤ 10) :
    let P := Spec.persistedPre size bs
    ∀ i j (hi : i < P.length) (hj : j < P.length), P[i] = P[j] → i = j := by
  intro P i j hi hj h
  have h1 := (pre size bs hs hbs).2 i hi
  have h2 := (pre size bs hs hbs).2 j hj
  simp only [P] at h
  rw [h, h2] at h1
  exact (Option.some.inj h1).symm

example : ∀ i j (hi : i < (Spec.persistedPre 20000 1).length)
    (hj : j < (Spec.persistedPre 20000 1).length),
    (Spec.persistedPre 20000 1)[i] = (Spec.persistedPre 20000 1)[j] → i = j :=
  pre_injective 20000 1 (by decide) (by decide)

theorem post_injective (size bs : Nat) (hs : size ≤ 2 ^ 63) (hbs : bs ≤ 10) :
    let P := Spec.persistedPost size bs
    ∀ i j (hi : i < P.length) (hj : j < P.length), P[i] = P[j] → i = j := by
  intro P i j hi hj h
  have h1 := (post size bs hs hbs).2 i hi
  have h2 := (post size bs hs hbs).2 j hj
  simp only [P] at h
  rw [h, h2] at h1
  exact (Option.some.inj h1).symm

example : ∀ i j (hi : i < (Spec.persistedPost 20000 1).length)
    (hj : j < (Spec.persistedPost 20000 1).length),
    (Spec.persistedPost 20000 1)[i] = (Spec.persistedPost 20000 1)[j] → i = j :=
  post_injective 20000 1 (by decide) (by decide)

/-- the number of chunk groups of the model is the specification's -/
theorem blocks_spec (size bs : Nat) : Tree.blocks ⟨size, bs⟩ = Spec.nBlocks size bs :=
  blocks_eq_nBlocks size bs

end Bao.C12

/-
Status.
PROVED (full strength, no `_partial`):
  * `pre`, `post`          — length = blocks-1 and `P[i] ↦ i`, for all size ≤ 2^63 (the hypothesis
                              `bs ≤ 10` is not used: the statements hold for every `bs`).
  * `pre_none`, `post_none` — level < bs ⇒ none; half leaf (blocks odd) ⇒ none.
  * `pre_injective`, `post_injective`, `blocks_spec`.
PARTIAL: none.   OPEN: none.
Not stated (not part of the target list): that *every* id outside the persisted set is mapped to
`none` — this is false for the code: ids beyond the tree get `some` garbage offset (e.g.
`Tree.preOrderOffset ⟨20000,1⟩ 19 = some _`); the property only speaks about the nodes of the tree.
-/
