import BaoProofs.Lemmas.SerdeL

/-!
# C19: wire items survive serialisation in any serde format

"Every serialisable protocol value - node ids, chunk numbers, parent and leaf items, content
items, encoded items, encode errors - deserialises to an equal value after serialisation, both
with a self-describing format and with a compact length-prefixed binary format."

The two format classes are modelled in `BaoModel/Serde.lean`: postcard (`pc…`, compact,
length-prefixed) and compact JSON as `serde_json::to_string` writes it (`js…`, self-describing).
`TreeNode` and `ChunkNum` are newtypes over `u64`; both formats write them as the bare number.

Well-formedness of a value (defined in `BaoProofs/Lemmas/SerdeL.lean`):
* `ParentWF p`  : `p.node < 2^64 ∧ p.l.length = 32 ∧ p.r.length = 32`;
* `LeafWF l`    : `l.offset < 2^64`;
* `EncErrWF e`  : the node id / chunk number carried by the variant is `< 2^64`
                  (`True` for `sizeMismatch` and `io`);
* `ContentWF`, `EncItemWF` : the above, by variant (`size n` needs `n < 2^64`).
The length-prefixed format additionally writes the length of a byte sequence as a varint `usize`:
* `LeafLen l` : `l.data.length < 2^64`; `EncErrLen (.io t)` : `t.length < 2^64`;
  `ContentLen`, `EncItemLen` : the same by variant, `True` for the other variants.
The JSON theorems need no length hypothesis.

Every theorem comes in two forms: the property itself (the whole input is the serialisation, the
reader returns the value and the empty remainder) and a `_suffix` form for an arbitrary trailing
byte string `rest`, which is what makes the codecs compose (a stream of items).  The only reader
that looks beyond its own value is the JSON number reader: a bare JSON number followed by another
digit is a different number, hence the side condition of `roundtrip_u64_json_suffix`.
-/

namespace Bao.C19

open Bao.Serde Bao.SerdeL

/-! ## node ids and chunk numbers (`u64`) -/

/-- both formats, whole input -/
theorem roundtrip_u64 (n : Nat) (h : n < 2 ^ 64) :
    readVarint (varint n) = some (n, []) ∧ jsReadNat (jsNat n) = some (n, []) := by
  have h1 := readVarint_varint n [] h
  have h2 := jsReadNat_jsNat n [] h noDigitHead_nil
  rw [List.append_nil] at h1 h2
  exact ⟨h1, h2⟩

example : readVarint (varint 300) = some (300, []) ∧ jsReadNat (jsNat 300) = some (300, []) :=
  roundtrip_u64 300 (by decide)

/-- the core lemma of the binary format: 10 groups of 7 bits suffice for a u64 -/
theorem roundtrip_u64_postcard_suffix (n : Nat) (rest : List UInt8) (h : n < 2 ^ 64) :
    readVarint (varint n ++ rest) = some (n, rest) :=
  readVarint_varint n rest h

example : readVarint (varint (2 ^ 64 - 1) ++ [1, 2]) = some (2 ^ 64 - 1, [1, 2]) :=
  roundtrip_u64_postcard_suffix _ _ (by decide)

theorem roundtrip_u64_json_suffix (n : Nat) (rest : List UInt8) (h : n < 2 ^ 64)
    (hr : ∀ b ∈ rest.head?, ¬ (48 ≤ b.toNat ∧ b.toNat ≤ 57)) :
    jsReadNat (jsNat n ++ rest) = some (n, rest) :=
  jsReadNat_jsNat n rest h hr

example : jsReadNat (jsNat 7 ++ [44, 49]) = some (7, [44, 49]) :=
  roundtrip_u64_json_suffix 7 [44, 49] (by decide) (by decide)

/-- the side condition is necessary: `1` followed by the digit `2` reads as `12` -/
example : jsReadNat (jsNat 1 ++ [50]) = some (12, []) := by decide

/-! ## building blocks of the JSON format: byte arrays and strings -/

theorem roundtrip_json_bytes_suffix (b rest : List UInt8) :
    jsReadBytes (jsBytes b ++ rest) = some (b, rest) :=
  jsReadBytes_jsBytes b rest

/-- every byte string survives serde_json's escaping, whatever follows the closing quote -/
theorem roundtrip_json_string_suffix (t rest : List UInt8) :
    jsReadString (jsString t ++ rest) = some (t, rest) :=
  jsReadString_jsString t rest

/-! ## `Parent` -/

theorem roundtrip_postcard_parent_suffix (p : ParentV) (rest : List UInt8)
    (hn : p.node < 2 ^ 64) (hl : p.l.length = 32) (hr : p.r.length = 32) :
    pcReadParent (pcParent p ++ rest) = some (p, rest) :=
  pcReadParent_pcParent p rest ⟨hn, hl, hr⟩

theorem roundtrip_json_parent_suffix (p : ParentV) (rest : List UInt8)
    (hn : p.node < 2 ^ 64) (hl : p.l.length = 32) (hr : p.r.length = 32) :
    jsReadParent (jsParent p ++ rest) = some (p, rest) :=
  jsReadParent_jsParent p rest ⟨hn, hl, hr⟩

theorem roundtrip_postcard_parent (p : ParentV)
    (hn : p.node < 2 ^ 64) (hl : p.l.length = 32) (hr : p.r.length = 32) :
    pcReadParent (pcParent p) = some (p, []) := by
  have := roundtrip_postcard_parent_suffix p [] hn hl hr
  rwa [List.append_nil] at this

theorem roundtrip_json_parent (p : ParentV)
    (hn : p.node < 2 ^ 64) (hl : p.l.length = 32) (hr : p.r.length = 32) :
    jsReadParent (jsParent p) = some (p, []) := by
  have := roundtrip_json_parent_suffix p [] hn hl hr
  rwa [List.append_nil] at this

/-- a concrete well-formed parent -/
def exParent : ParentV := ⟨5, List.replicate 32 1, List.replicate 32 200⟩

example : pcReadParent (pcParent exParent ++ [9]) = some (exParent, [9]) :=
  roundtrip_postcard_parent_suffix exParent [9] (by decide) (by decide) (by decide)
example : jsReadParent (jsParent exParent ++ [57]) = some (exParent, [57]) :=
  roundtrip_json_parent_suffix exParent [57] (by decide) (by decide) (by decide)
example : pcReadParent (pcParent exParent) = some (exParent, []) :=
  roundtrip_postcard_parent exParent (by decide) (by decide) (by decide)
example : jsReadParent (jsParent exParent) = some (exParent, []) :=
  roundtrip_json_parent exParent (by decide) (by decide) (by decide)

/-! ## `Leaf` -/

theorem roundtrip_postcard_leaf_suffix (l : LeafV) (rest : List UInt8)
    (ho : l.offset < 2 ^ 64) (hd : l.data.length < 2 ^ 64) :
    pcReadLeaf (pcLeaf l ++ rest) = some (l, rest) :=
  pcReadLeaf_pcLeaf l rest ho hd

theorem roundtrip_json_leaf_suffix (l : LeafV) (rest : List UInt8) (ho : l.offset < 2 ^ 64) :
    jsReadLeaf (jsLeaf l ++ rest) = some (l, rest) :=
  jsReadLeaf_jsLeaf l rest ho

theorem roundtrip_postcard_leaf (l : LeafV)
    (ho : l.offset < 2 ^ 64) (hd : l.data.length < 2 ^ 64) :
    pcReadLeaf (pcLeaf l) = some (l, []) := by
  have := roundtrip_postcard_leaf_suffix l [] ho hd
  rwa [List.append_nil] at this

theorem roundtrip_json_leaf (l : LeafV) (ho : l.offset < 2 ^ 64) :
    jsReadLeaf (jsLeaf l) = some (l, []) := by
  have := roundtrip_json_leaf_suffix l [] ho
  rwa [List.append_nil] at this

/-- a concrete well-formed leaf -/
def exLeaf : LeafV := ⟨1024, [0, 34, 255]⟩

example : pcReadLeaf (pcLeaf exLeaf ++ [9]) = some (exLeaf, [9]) :=
  roundtrip_postcard_leaf_suffix exLeaf [9] (by decide) (by decide)
example : jsReadLeaf (jsLeaf exLeaf ++ [57]) = some (exLeaf, [57]) :=
  roundtrip_json_leaf_suffix exLeaf [57] (by decide)
example : pcReadLeaf (pcLeaf exLeaf) = some (exLeaf, []) :=
  roundtrip_postcard_leaf exLeaf (by decide) (by decide)
example : jsReadLeaf (jsLeaf exLeaf) = some (exLeaf, []) :=
  roundtrip_json_leaf exLeaf (by decide)

/-! ## `EncodeError` -/

theorem roundtrip_postcard_encerr_suffix (e : EncErrV) (rest : List UInt8)
    (h : EncErrWF e) (hl : EncErrLen e) :
    pcReadEncErr (pcEncErr e ++ rest) = some (e, rest) :=
  pcReadEncErr_pcEncErr e rest h hl

theorem roundtrip_json_encerr_suffix (e : EncErrV) (rest : List UInt8) (h : EncErrWF e) :
    jsReadEncErr (jsEncErr e ++ rest) = some (e, rest) :=
  jsReadEncErr_jsEncErr e rest h

theorem roundtrip_postcard_encerr (e : EncErrV) (h : EncErrWF e) (hl : EncErrLen e) :
    pcReadEncErr (pcEncErr e) = some (e, []) := by
  have := roundtrip_postcard_encerr_suffix e [] h hl
  rwa [List.append_nil] at this

theorem roundtrip_json_encerr (e : EncErrV) (h : EncErrWF e) :
    jsReadEncErr (jsEncErr e) = some (e, []) := by
  have := roundtrip_json_encerr_suffix e [] h
  rwa [List.append_nil] at this

example : pcReadEncErr (pcEncErr (.leafWrite 7) ++ [9]) = some (.leafWrite 7, [9]) :=
  roundtrip_postcard_encerr_suffix (.leafWrite 7) [9] (show (7 : Nat) < 2 ^ 64 by decide) trivial
example : jsReadEncErr (jsEncErr (.leafWrite 7) ++ [57]) = some (.leafWrite 7, [57]) :=
  roundtrip_json_encerr_suffix (.leafWrite 7) [57] (show (7 : Nat) < 2 ^ 64 by decide)
example : pcReadEncErr (pcEncErr (.io [79, 34, 10])) = some (.io [79, 34, 10], []) :=
  roundtrip_postcard_encerr (.io [79, 34, 10]) trivial (show (3 : Nat) < 2 ^ 64 by decide)
example : jsReadEncErr (jsEncErr (.io [79, 34, 10])) = some (.io [79, 34, 10], []) :=
  roundtrip_json_encerr (.io [79, 34, 10]) trivial

/-! ## `BaoContentItem` -/

theorem roundtrip_postcard_content_suffix (c : ContentV) (rest : List UInt8)
    (h : ContentWF c) (hl : ContentLen c) :
    pcReadContent (pcContent c ++ rest) = some (c, rest) :=
  pcReadContent_pcContent c rest h hl

theorem roundtrip_json_content_suffix (c : ContentV) (rest : List UInt8) (h : ContentWF c) :
    jsReadContent (jsContent c ++ rest) = some (c, rest) :=
  jsReadContent_jsContent c rest h

theorem roundtrip_postcard_content (c : ContentV) (h : ContentWF c) (hl : ContentLen c) :
    pcReadContent (pcContent c) = some (c, []) := by
  have := roundtrip_postcard_content_suffix c [] h hl
  rwa [List.append_nil] at this

theorem roundtrip_json_content (c : ContentV) (h : ContentWF c) :
    jsReadContent (jsContent c) = some (c, []) := by
  have := roundtrip_json_content_suffix c [] h
  rwa [List.append_nil] at this

private theorem exParent_wf : ParentWF exParent := ⟨by decide, by decide, by decide⟩
private theorem exLeaf_wf : LeafWF exLeaf := show (1024 : Nat) < 2 ^ 64 by decide
private theorem exLeaf_len : LeafLen exLeaf := show (3 : Nat) < 2 ^ 64 by decide

example : pcReadContent (pcContent (.leaf exLeaf) ++ [9]) = some (.leaf exLeaf, [9]) :=
  roundtrip_postcard_content_suffix (.leaf exLeaf) [9] exLeaf_wf exLeaf_len
example : jsReadContent (jsContent (.leaf exLeaf) ++ [57]) = some (.leaf exLeaf, [57]) :=
  roundtrip_json_content_suffix (.leaf exLeaf) [57] exLeaf_wf
example : pcReadContent (pcContent (.parent exParent)) = some (.parent exParent, []) :=
  roundtrip_postcard_content (.parent exParent) exParent_wf trivial
example : jsReadContent (jsContent (.parent exParent)) = some (.parent exParent, []) :=
  roundtrip_json_content (.parent exParent) exParent_wf

/-! ## `EncodedItem` -/

theorem roundtrip_postcard_encitem_suffix (c : EncItemV) (rest : List UInt8)
    (h : EncItemWF c) (hl : EncItemLen c) :
    pcReadEncItem (pcEncItem c ++ rest) = some (c, rest) :=
  pcReadEncItem_pcEncItem c rest h hl

theorem roundtrip_json_encitem_suffix (c : EncItemV) (rest : List UInt8) (h : EncItemWF c) :
    jsReadEncItem (jsEncItem c ++ rest) = some (c, rest) :=
  jsReadEncItem_jsEncItem c rest h

theorem roundtrip_postcard_encitem (c : EncItemV) (h : EncItemWF c) (hl : EncItemLen c) :
    pcReadEncItem (pcEncItem c) = some (c, []) := by
  have := roundtrip_postcard_encitem_suffix c [] h hl
  rwa [List.append_nil] at this

theorem roundtrip_json_encitem (c : EncItemV) (h : EncItemWF c) :
    jsReadEncItem (jsEncItem c) = some (c, []) := by
  have := roundtrip_json_encitem_suffix c [] h
  rwa [List.append_nil] at this

example : pcReadEncItem (pcEncItem (.error (.parentWrite 3)) ++ [9])
    = some (.error (.parentWrite 3), [9]) :=
  roundtrip_postcard_encitem_suffix (.error (.parentWrite 3)) [9]
    (show (3 : Nat) < 2 ^ 64 by decide) trivial
example : jsReadEncItem (jsEncItem (.error (.parentWrite 3)) ++ [57])
    = some (.error (.parentWrite 3), [57]) :=
  roundtrip_json_encitem_suffix (.error (.parentWrite 3)) [57] (show (3 : Nat) < 2 ^ 64 by decide)
example : pcReadEncItem (pcEncItem (.leaf exLeaf)) = some (.leaf exLeaf, []) :=
  roundtrip_postcard_encitem (.leaf exLeaf) exLeaf_wf exLeaf_len
example : jsReadEncItem (jsEncItem (.size 4096)) = some (.size 4096, []) :=
  roundtrip_json_encitem (.size 4096) (show (4096 : Nat) < 2 ^ 64 by decide)

/-! ## the io error text -/

/-- `io_error_serde::serialize` writes `format!("{:?}:{}", kind, error)`; the text is what the
value carries (`EncErrV.io text`), and by `roundtrip_*_encerr` it comes back unchanged, to be
rebuilt as `io::Error::new(Other, text)`: the original kind and message are both contained in it,
as its beginning and its end, separated by `:` -/
theorem io_text (kind msg : List UInt8) :
    ioErrorText kind msg = kind ++ [58] ++ msg ∧
    kind <+: ioErrorText kind msg ∧ msg <:+ ioErrorText kind msg :=
  ⟨rfl, ioErrorText_spec kind msg⟩

/-
## Status

Proved (no `sorry`; axioms: propext, Quot.sound, Classical.choice at most):
* `roundtrip_u64` (both formats), `roundtrip_u64_postcard_suffix`, `roundtrip_u64_json_suffix`
  (side condition: `rest` does not start with a digit; shown necessary by an `example`);
* `roundtrip_json_bytes_suffix`, `roundtrip_json_string_suffix` (every byte string, any suffix);
* `roundtrip_postcard_{parent,leaf,encerr,content,encitem}` and
  `roundtrip_json_{parent,leaf,encerr,content,encitem}` (whole input, `rest = []`);
* the `_suffix` form of each of the ten (arbitrary `rest`, no side condition: every composite JSON
  value ends with `]`, `}` or `"`);
* `io_text`.
Partial: none.  OPEN: none.

Hypotheses beyond "u64 fields are u64, hashes are 32 bytes": the postcard theorems for values that
carry a byte sequence (`Leaf.data`, the io text) need its length `< 2^64` (`LeafLen`, `EncErrLen`;
always true of a Rust `Vec`/`String`); with a length `≥ 2^70` the model's 10-byte varint would
truncate.  The JSON theorems need no such hypothesis.
-/

end Bao.C19
