import BaoProofs.Lemmas.C07LocL
import BaoProofs.Props.C07
import BaoProofs.Props.C07Conv
import BaoProofs.Props.C06Loc
import BaoProofs.Props.C01Loc

/-!
# C07 with LOCALISED collision freedom (histories of partial downloads)

`Props/C07.lean` and `Props/C07Conv.lean` prove the consistency / convergence of every history of
fault-injected `decode_ranges` calls under the GLOBAL hypothesis `CollisionFree hf`, which no
function into 32 bytes satisfies (`Lemmas/CFUnsat.lean`).  Here the same statements are proved under

  `CollisionFreeOn hf (fun x => x ∈ histEvals hf d ops sink)`

where `histEvals hf d ops sink` (`Lemmas/C07LocL.lean`) is the finite, computable list

  `trueEvals hf d ++ ops.flatMap (fun op => runEvals hf op.fl sink.ob.root sink.ob.tree op.ranges op.stream)`

i.e. the inputs evaluated by the honest hashing of the blob, followed – for every call of the
history – by the inputs evaluated by the decoder run of that call on its stream and query, set up
with the root and the tree of the sink's outboard (which a history never changes, `C07.root_preserved`
/ `tree_preserved`).  CHOICE: `runEvals` is the list of the FAULT-FREE run of the call.  A call with
an injected write / save failure stops earlier and evaluates a prefix of it, so this is a superset
of what the faulty history evaluates; in exchange `histEvals` does not depend on the injected faults
nor on the state of the sink (only on its root and tree).

For the validator theorems the inputs of the final validator run are added:
`histValidEvals hf d ops sink fl q = histEvals hf d ops sink ++
  validEvals hf fl (run hf ops sink).ob (run hf ops sink).target q` (`C06Loc.validEvals`).

`history_collision_extraction*` are the contrapositives without any hash hypothesis.
-/

set_option maxRecDepth 8192

namespace Bao.C07Loc

open Bao Bao.Spec Bao.C01 Bao.C07 Bao.C07L
open Bao.FaultL (Ev applyEvs)

variable {H : Type} [BEq H] [LawfulBEq H] {hf : HashFns H} {d : List UInt8} {bs : Nat}

/-- the evaluation list of a history followed by the inputs of a validator run on the final sink -/
def histValidEvals (hf : HashFns H) (d : List UInt8) (ops : List Op) (sink : Sink H)
    (fl : Flavour) (q : Ranges) : List (HashIn H) :=
  histEvals hf d ops sink ++
    C06Loc.validEvals hf fl (run hf ops sink).ob (run hf ops sink).target q

omit [LawfulBEq H] in
/-- what `histEvals` is, spelled out -/
theorem mem_histEvals {ops : List Op} {sink : Sink H} {x : HashIn H} :
    x ∈ histEvals hf d ops sink ↔ x ∈ trueEvals hf d ∨
      ∃ op ∈ ops, x ∈ runEvals hf op.fl sink.ob.root sink.ob.tree op.ranges op.stream := by
  simp only [histEvals, List.mem_append, mem_callEvals]

omit [LawfulBEq H] in
/-- the evaluation list of a prefix of a history is part of that of the history -/
theorem histEvals_prefix (ops : List Op) (sink : Sink H) (n : Nat) :
    ∀ x ∈ histEvals hf d (ops.take n) sink, x ∈ histEvals hf d ops sink :=
  histEvals_take hf d ops sink n

omit [LawfulBEq H] in
/-- the global hypothesis implies the local one -/
theorem collisionFree_hist (cf : CollisionFree hf) (ops : List Op) (sink : Sink H) :
    CollisionFreeOn hf (fun x => x ∈ histEvals hf d ops sink) := cf.on _

/-! ## 1. the theorems of `Props/C07.lean` -/

/-- **C01 for the fault-injected `decode_ranges`, local form** (`C07.decodeRangesF_sound`): the
hypothesis is collision freedom on the evaluation list of the one-call history. -/
theorem decodeRangesF_sound_loc (hd : d.length ≤ 2 ^ 64 * 1024) (fl : Flavour)
    (s : List UInt8) (ranges : Ranges) (sink : Sink H) (fw fs : Option Nat)
    (hroot : sink.ob.root = Spec.root hf d)
    (cf : CollisionFreeOn hf (fun x => x ∈ histEvals hf d [⟨fl, s, ranges, fw, fs⟩] sink)) :
    ∃ (wl : List (Nat × List UInt8)) (pl : List (Nat × H × H)),
      (∀ w ∈ wl, TrueLeaf d w.1 w.2) ∧ (∀ p ∈ pl, TruePair hf d p.2.1 p.2.2) ∧
      (decodeRangesF hf fl s ranges sink fw fs).1.target = applyWrites sink.target wl ∧
      (decodeRangesF hf fl s ranges sink fw fs).1.ob = applySaves hf sink.ob pl :=
  run_effect_loc hd [⟨fl, s, ranges, fw, fs⟩] sink hroot cf

/-- **Invariant of histories, local form** (`C07.inv`). -/
theorem inv_loc (hd : d.length ≤ 2 ^ 64 * 1024) (ops : List Op) (sink : Sink H)
    (hroot : sink.ob.root = Spec.root hf d)
    (cf : CollisionFreeOn hf (fun x => x ∈ histEvals hf d ops sink)) :
    ∃ wl : List (Nat × List UInt8),
      (∀ w ∈ wl, TrueLeaf d w.1 w.2) ∧
      (run hf ops sink).target = applyWrites sink.target wl ∧
      (sink.target.length = d.length →
        (run hf ops sink).target.length = d.length ∧
        ∀ i : Nat,
          (¬ Cov wl i → (run hf ops sink).target[i]? = sink.target[i]?) ∧
          (Cov wl i → (run hf ops sink).target[i]? = d[i]? ∧ i < d.length) ∧
          ((run hf ops sink).target[i]? = sink.target[i]? ∨ (run hf ops sink).target[i]? = d[i]?)) := by
  obtain ⟨wl, _, hw, _, ht, _⟩ := run_effect_loc hd ops sink hroot cf
  refine ⟨wl, hw, ht, fun hlen => ?_⟩
  obtain ⟨hl, hg⟩ := applyWrites_spec wl sink.target hlen hw
  rw [ht]
  refine ⟨hl, fun i => ⟨(hg i).2, fun hc => ⟨(hg i).1 hc, hc.lt hw⟩, ?_⟩⟩
  by_cases hc : Cov wl i
  · exact .inr ((hg i).1 hc)
  · exact .inl ((hg i).2 hc)

/-- "after every step", local form (`C07.inv_prefix`): the invariant at the prefix of length `n`
needs collision freedom only on the evaluation list of THAT prefix (a sublist of the list of the
whole history, `histEvals_prefix`). -/
theorem inv_prefix_loc (hd : d.length ≤ 2 ^ 64 * 1024) (ops : List Op)
    (sink : Sink H) (hroot : sink.ob.root = Spec.root hf d) (hlen : sink.target.length = d.length)
    (n : Nat) (cf : CollisionFreeOn hf (fun x => x ∈ histEvals hf d (ops.take n) sink)) :
    ∃ wl : List (Nat × List UInt8),
      (∀ w ∈ wl, TrueLeaf d w.1 w.2) ∧
      (run hf (ops.take n) sink).target.length = d.length ∧
      ∀ i : Nat,
        (¬ Cov wl i → (run hf (ops.take n) sink).target[i]? = sink.target[i]?) ∧
        (Cov wl i → (run hf (ops.take n) sink).target[i]? = d[i]?) := by
  obtain ⟨wl, hw, _, h⟩ := inv_loc hd (ops.take n) sink hroot cf
  obtain ⟨hl, hg⟩ := h hlen
  exact ⟨wl, hw, hl, fun i => ⟨(hg i).1, fun hc => ((hg i).2.1 hc).1⟩⟩

/-- the same with the hypothesis on the list of the whole history: every prefix at once -/
theorem inv_prefix_loc_all (hd : d.length ≤ 2 ^ 64 * 1024) (ops : List Op)
    (sink : Sink H) (hroot : sink.ob.root = Spec.root hf d) (hlen : sink.target.length = d.length)
    (cf : CollisionFreeOn hf (fun x => x ∈ histEvals hf d ops sink)) (n : Nat) :
    ∃ wl : List (Nat × List UInt8),
      (∀ w ∈ wl, TrueLeaf d w.1 w.2) ∧
      (run hf (ops.take n) sink).target.length = d.length ∧
      ∀ i : Nat,
        (¬ Cov wl i → (run hf (ops.take n) sink).target[i]? = sink.target[i]?) ∧
        (Cov wl i → (run hf (ops.take n) sink).target[i]? = d[i]?) :=
  inv_prefix_loc hd ops sink hroot hlen n (cf.mono (histEvals_prefix ops sink n))

/-- the delivered set only grows, local form (`C07.inv_extend`) -/
theorem inv_extend_loc (hd : d.length ≤ 2 ^ 64 * 1024) (ops more : List Op)
    (sink : Sink H) (hroot : sink.ob.root = Spec.root hf d)
    (cf : CollisionFreeOn hf (fun x => x ∈ histEvals hf d (ops ++ more) sink)) :
    ∃ wl wl' : List (Nat × List UInt8),
      (∀ w ∈ wl ++ wl', TrueLeaf d w.1 w.2) ∧
      (run hf ops sink).target = applyWrites sink.target wl ∧
      (run hf (ops ++ more) sink).target = applyWrites sink.target (wl ++ wl') ∧
      ∀ i, Cov wl i → Cov (wl ++ wl') i := by
  obtain ⟨wl, _, hw, _, ht, _⟩ := run_effect_loc hd ops sink hroot
    (cf.mono (histEvals_left hf d ops more sink))
  obtain ⟨r1, r2, -⟩ := run_root hf ops sink
  have hroot' : (run hf ops sink).ob.root = Spec.root hf d := r1.trans hroot
  obtain ⟨wl', _, hw', _, ht', _⟩ := run_effect_loc hd more (run hf ops sink) hroot'
    (cf.mono (histEvals_mono hf d sink (run hf ops sink) r1 r2
      (fun _ h => List.mem_append_right _ h)))
  refine ⟨wl, wl', ?_, ht, ?_, fun i h => (cov_append wl wl' i).2 (.inl h)⟩
  · intro w hmem
    rcases List.mem_append.1 hmem with h | h
    · exact hw w h
    · exact hw' w h
  · rw [run_append, ht', ht, applyWrites_append]

/-- convergence, local form (`C07.converges`; `C07.converges_target` has no hash hypothesis) -/
theorem converges_loc (hd : d.length ≤ 2 ^ 64 * 1024) (ops : List Op)
    (sink : Sink H) (hroot : sink.ob.root = Spec.root hf d) (hlen : sink.target.length = d.length)
    (cf : CollisionFreeOn hf (fun x => x ∈ histEvals hf d ops sink)) :
    ∃ wl : List (Nat × List UInt8),
      (∀ w ∈ wl, TrueLeaf d w.1 w.2) ∧
      (run hf ops sink).target = applyWrites sink.target wl ∧
      ((∀ i, i < d.length → Cov wl i) → (run hf ops sink).target = d) := by
  obtain ⟨wl, hw, ht, _⟩ := inv_loc hd ops sink hroot cf
  exact ⟨wl, hw, ht, converges_target ops sink wl hw ht hlen⟩

/-- every pair ever saved is a pair of the blob's true tree, local form (`C07.saved_pairs_true`) -/
theorem saved_pairs_true_loc (hd : d.length ≤ 2 ^ 64 * 1024) (ops : List Op)
    (sink : Sink H) (hroot : sink.ob.root = Spec.root hf d)
    (cf : CollisionFreeOn hf (fun x => x ∈ histEvals hf d ops sink)) :
    ∃ pl : List (Nat × H × H),
      (∀ p ∈ pl, TruePair hf d p.2.1 p.2.2) ∧
      (run hf ops sink).ob = applySaves hf sink.ob pl := by
  obtain ⟨_, pl, _, hp, _, ho⟩ := run_effect_loc hd ops sink hroot cf
  exact ⟨pl, hp, ho⟩

/-! ## 2. the theorems of `Props/C07Conv.lean`

`log_order`, `log_target`, `log_saves`, `log_ancestors_hold`, `log_converges`,
`log_validator_reports`, `log_validator_ok` of `Props/C07Conv.lean` take a `LabelledLog` as
hypothesis and have NO hash hypothesis; they apply unchanged to the log produced by
`history_log_loc`. -/

/-- **every history has a labelled log, local form** (`C07.history_log`) -/
theorem history_log_loc (hd : d.length ≤ 2 ^ 63) (ops : List Op)
    (sink : Sink H) (hroot : sink.ob.root = Spec.root hf d)
    (htree : sink.ob.tree = ⟨d.length, bs⟩)
    (cf : CollisionFreeOn hf (fun x => x ∈ histEvals hf d ops sink)) :
    ∃ es, LabelledLog hf d bs ops sink es :=
  run_log_loc hd ops sink hroot htree cf

/-- **Stage A: labelled saves, local form** (`C07.saved_pairs_labelled`) -/
theorem saved_pairs_labelled_loc (hd : d.length ≤ 2 ^ 63) (ops : List Op)
    (sink : Sink H) (hroot : sink.ob.root = Spec.root hf d)
    (htree : sink.ob.tree = ⟨d.length, bs⟩)
    (cf : CollisionFreeOn hf (fun x => x ∈ histEvals hf d ops sink)) :
    ∃ pl : List (Nat × H × H),
      (∀ p ∈ pl, ∃ k L, bs ≤ L ∧ midOf k L < nChunks d.length ∧ p.1 = nodeOf k L ∧
        (p.2.1, p.2.2) = Spec.pair hf d k L) ∧
      SavesOk hf sink.ob pl ∧
      (run hf ops sink).ob = applySaves hf sink.ob pl := by
  obtain ⟨es, h⟩ := history_log_loc (bs := bs) hd ops sink hroot htree cf
  exact ⟨_, log_saves h⟩

/-- **Stage B: ancestors before leaves, within one call, local form**
(`C07.ancestors_saved_before_leaf`) -/
theorem ancestors_saved_before_leaf_loc (hd : d.length ≤ 2 ^ 63)
    (fl : Flavour) (s : List UInt8) (q : Ranges) (sink : Sink H) (fw fs : Option Nat)
    (hroot : sink.ob.root = Spec.root hf d) (htree : sink.ob.tree = ⟨d.length, bs⟩)
    (cf : CollisionFreeOn hf (fun x => x ∈ histEvals hf d [⟨fl, s, q, fw, fs⟩] sink)) :
    ∃ es : List (Ev H),
      (decodeRangesF hf fl s q sink fw fs).1 = applyEvs hf sink es ∧ EvsOk hf sink es ∧
      (∀ a node l r b, es = a ++ Ev.save node l r :: b →
        ∃ k L, bs ≤ L ∧ midOf k L < nChunks d.length ∧ node = nodeOf k L ∧
          (l, r) = Spec.pair hf d k L) ∧
      (∀ a off data b, es = a ++ Ev.write off data :: b →
        ∃ c e, Sub d c e ∧ off = c * 1024 ∧ data = slice d c e ∧
          ∀ x, c ≤ x → x < e → ∀ L, bs ≤ L → midOf (x / 2 ^ (L + 1)) L < nChunks d.length →
            Ev.save (nodeOf (x / 2 ^ (L + 1)) L) (Spec.pair hf d (x / 2 ^ (L + 1)) L).1
              (Spec.pair hf d (x / 2 ^ (L + 1)) L).2 ∈ a) := by
  obtain ⟨es, h⟩ := history_log_loc (bs := bs) hd [⟨fl, s, q, fw, fs⟩] sink hroot htree cf
  exact ⟨es, h.1, h.2.1, log_order h⟩

/-- Stage B, consequence, local form (`C07.ancestors_hold`) -/
theorem ancestors_hold_loc (hlen : ∀ h, (hf.toBytes h).length = 32)
    (hd : d.length ≤ 2 ^ 63) (hbs : bs ≤ 10) (ops : List Op) (sink : Sink H)
    (hroot : sink.ob.root = Spec.root hf d) (htree : sink.ob.tree = ⟨d.length, bs⟩)
    (hk : sink.ob.kind ≠ .empty)
    (cf : CollisionFreeOn hf (fun x => x ∈ histEvals hf d ops sink)) :
    ∃ wl : List (Nat × List UInt8),
      (∀ w ∈ wl, TrueLeaf d w.1 w.2) ∧
      (run hf ops sink).target = applyWrites sink.target wl ∧
      ∀ i, Cov wl i → ∀ L, bs ≤ L → midOf (i / 1024 / 2 ^ (L + 1)) L < nChunks d.length →
        Holds hf d (run hf ops sink).ob (nodeOf (i / 1024 / 2 ^ (L + 1)) L) := by
  obtain ⟨es, h⟩ := history_log_loc (bs := bs) hd ops sink hroot htree cf
  exact ⟨_, (log_target h).1, (log_target h).2, log_ancestors_hold hlen hd hbs h htree hk⟩

/-- **Stage C: convergence of the outboard, local form** (`C07.converges_outboard`) -/
theorem converges_outboard_loc (hlen : ∀ h, (hf.toBytes h).length = 32)
    (hd : d.length ≤ 2 ^ 63) (hbs : bs ≤ 10) (ops : List Op) (sink : Sink H)
    (hroot : sink.ob.root = Spec.root hf d) (htree : sink.ob.tree = ⟨d.length, bs⟩)
    (hk : sink.ob.kind ≠ .empty) (hsz : sink.ob.data.length ≤ sink.ob.tree.outboardSize)
    (cf : CollisionFreeOn hf (fun x => x ∈ histEvals hf d ops sink)) :
    ∃ wl : List (Nat × List UInt8),
      (∀ w ∈ wl, TrueLeaf d w.1 w.2) ∧
      (run hf ops sink).target = applyWrites sink.target wl ∧
      ((∀ i, i < d.length → Cov wl i) →
        ((sink.ob.kind = .preIo ∨ sink.ob.kind = .preMem) →
          (run hf ops sink).ob.data = Spec.preOutboard hf d bs) ∧
        ((sink.ob.kind = .postIo ∨ sink.ob.kind = .postMem) →
          (run hf ops sink).ob.data = Spec.postOutboard hf d bs) ∧
        (sink.target.length = d.length → (run hf ops sink).target = d)) := by
  obtain ⟨es, h⟩ := history_log_loc (bs := bs) hd ops sink hroot htree cf
  exact ⟨_, (log_target h).1, (log_target h).2, log_converges hlen hd hbs h htree hk hsz⟩

/-! ### Stage D: the validator after a history -/

/-- **(ii) every reported group holds the blob's bytes, local form** (`C07.log_validator_sound`):
`C06Loc.reported_true_bytes_run` on the final sink; the hypothesis is collision freedom on the
inputs of the honest hashing and of THIS validator run. -/
theorem log_validator_sound_loc (hd : d.length ≤ 2 ^ 63) (hbs : bs ≤ 10)
    {ops : List Op} {sink : Sink H} {es : List (Ev H)} (h : LabelledLog hf d bs ops sink es)
    (hroot : sink.ob.root = Spec.root hf d) (htree : sink.ob.tree = ⟨d.length, bs⟩)
    (htl : sink.target.length = d.length) (fl : Flavour) (q : Ranges)
    (cf : CollisionFreeOn hf (fun x => x ∈ trueEvals hf d ++
      C06Loc.validEvals hf fl (run hf ops sink).ob (run hf ops sink).target q))
    (g : Nat × Nat)
    (hgm : g ∈ (validRanges hf fl (run hf ops sink).ob (run hf ops sink).target q).yields) :
    ((run hf ops sink).target.drop (g.1 * 1024)).take (min (g.2 * 1024) d.length - g.1 * 1024) =
      (d.drop (g.1 * 1024)).take (min (g.2 * 1024) d.length - g.1 * 1024) ∧
    g.1 * 1024 + (min (g.2 * 1024) d.length - g.1 * 1024) ≤ d.length := by
  obtain ⟨r1, r2, -⟩ := run_root hf ops sink
  have htree' := r2.trans htree
  obtain ⟨hl, -⟩ := applyWrites_spec (FaultL.writes es) sink.target htl (log_target h).1
  rw [← (log_target h).2] at hl
  have := C06Loc.reported_true_bytes_run hf fl (run hf ops sink).ob (run hf ops sink).target d
    (by rw [htree']; exact hd) (by rw [htree']; exact hbs) (by omega) (r1.trans hroot)
    (by rw [htree', hl]; exact Nat.le_refl _) q cf g hgm
  rw [htree'] at this
  exact this

/-- **exact converse, chunk by chunk, local form** (`C07.log_reported_delivered`) -/
theorem log_reported_delivered_loc (hd : d.length ≤ 2 ^ 63)
    (hbs : bs ≤ 10) {ops : List Op} {sink : Sink H} {es : List (Ev H)}
    (h : LabelledLog hf d bs ops sink es) (hroot : sink.ob.root = Spec.root hf d)
    (htree : sink.ob.tree = ⟨d.length, bs⟩) (htl : sink.target.length = d.length) (fl : Flavour)
    (q : Ranges)
    (cf : CollisionFreeOn hf (fun x => x ∈ trueEvals hf d ++
      C06Loc.validEvals hf fl (run hf ops sink).ob (run hf ops sink).target q))
    (g : Nat × Nat)
    (hgm : g ∈ (validRanges hf fl (run hf ops sink).ob (run hf ops sink).target q).yields)
    (c : Nat) (hc1 : g.1 ≤ c) (hc2 : c < g.2)
    (hdiff : ∃ i₀, c * 1024 ≤ i₀ ∧ i₀ < (c + 1) * 1024 ∧ i₀ < d.length ∧
      sink.target[i₀]? ≠ d[i₀]?) :
    ∀ i, c * 1024 ≤ i → i < (c + 1) * 1024 → i < d.length → Cov (FaultL.writes es) i := by
  have h3 := h.2.2
  obtain ⟨hl, hg⟩ := applyWrites_spec (FaultL.writes es) sink.target htl (log_target h).1
  rw [← (log_target h).2] at hl hg
  obtain ⟨i₀, a1, a2, a3, a4⟩ := hdiff
  intro i b1 b2 b3
  have htb := log_validator_sound_loc hd hbs h hroot htree htl fl q cf g hgm
  -- the final target holds the blob's byte at `i₀`
  have hi0 : (run hf ops sink).target[i₀]? = d[i₀]? := by
    have hin1 : g.1 * 1024 ≤ i₀ := by
      have := Nat.mul_le_mul_right 1024 hc1; omega
    have hin2 : i₀ < min (g.2 * 1024) d.length := by
      have := Nat.mul_le_mul_right 1024 (Nat.succ_le_of_lt hc2); omega
    have := congrArg (fun l : List UInt8 => l[i₀ - g.1 * 1024]?) htb.1
    have hlt : i₀ - g.1 * 1024 < min (g.2 * 1024) d.length - g.1 * 1024 := by omega
    simp only [List.getElem?_take, List.getElem?_drop, hlt, if_true] at this
    rw [show g.1 * 1024 + (i₀ - g.1 * 1024) = i₀ by omega] at this
    exact this
  -- hence `i₀` has been delivered
  have hcov0 : Cov (FaultL.writes es) i₀ := by
    apply Classical.byContradiction
    intro hn
    exact a4 (((hg i₀).2 hn).symm.trans hi0)
  -- by a write of a whole chunk interval containing chunk `c`
  obtain ⟨w, hw, w1, w2⟩ := hcov0
  obtain ⟨c', e', hsub, hce, hoff, hdata, -⟩ := trace_write h3 (mem_writes.1 hw)
  have hle := slice_length_le' d c' e'
  rw [← hdata] at hle
  rw [hoff] at w1 w2
  have hc'c : c' ≤ c := by
    apply Classical.byContradiction
    intro hh
    have := Nat.mul_le_mul_right 1024 (Nat.succ_le_of_lt (Nat.lt_of_not_le hh))
    omega
  have hce' : c < e' := by
    apply Classical.byContradiction
    intro hh
    have := Nat.mul_le_mul_right 1024 (Nat.le_of_not_lt hh)
    omega
  have m1 := Nat.mul_le_mul_right 1024 hc'c
  have m2 := Nat.mul_le_mul_right 1024 (Nat.succ_le_of_lt hce')
  refine ⟨w, hw, by rw [hoff]; omega, ?_⟩
  rw [hoff, hdata, C01.slice_length]
  omega

/-- **the validator reports exactly the delivered groups, local form**
(`C07.log_validator_exact`) -/
theorem log_validator_exact_loc (hlen : ∀ h, (hf.toBytes h).length = 32)
    (hrt : RtTrue hf d bs) (hd : d.length ≤ 2 ^ 63) (hbs : bs ≤ 10) {ops : List Op}
    {sink : Sink H} {es : List (Ev H)} (h : LabelledLog hf d bs ops sink es)
    (hroot : sink.ob.root = Spec.root hf d) (htree : sink.ob.tree = ⟨d.length, bs⟩)
    (hk : sink.ob.kind ≠ .empty) (htl : sink.target.length = d.length)
    (hfull : sink.ob.tree.outboardSize ≤ sink.ob.data.length) (fl : Flavour) (q : Ranges)
    (hq : Ranges.WF q = true)
    (cf : CollisionFreeOn hf (fun x => x ∈ trueEvals hf d ++
      C06Loc.validEvals hf fl (run hf ops sink).ob (run hf ops sink).target q))
    (j : Nat) (hj : j < Tree.blocks ⟨d.length, bs⟩)
    (hdiff : ∀ c, (ValidL.groupRange ⟨d.length, bs⟩ j).1 ≤ c →
      c < (ValidL.groupRange ⟨d.length, bs⟩ j).2 →
      ∃ i₀, c * 1024 ≤ i₀ ∧ i₀ < (c + 1) * 1024 ∧ i₀ < d.length ∧ sink.target[i₀]? ≠ d[i₀]?) :
    ValidL.groupRange ⟨d.length, bs⟩ j ∈
        (validRanges hf fl (run hf ops sink).ob (run hf ops sink).target q).yields ↔
      (Tree.blocks ⟨d.length, bs⟩ = 1 ∨
        ValidL.Touched d.length q (ValidL.groupRange ⟨d.length, bs⟩ j)) ∧
      GroupDelivered d bs (FaultL.writes es) j := by
  obtain ⟨-, r2, -⟩ := run_root hf ops sink
  have htree' := r2.trans htree
  constructor
  · intro hgm
    refine ⟨?_, ?_⟩
    · have := (C06.reported_sound hf fl (run hf ops sink).ob (run hf ops sink).target
        (by rw [htree']; exact hd) (by rw [htree']; exact hbs) q hq _ hgm).2
      rw [htree'] at this
      exact this
    · intro i i1 i2 i3
      unfold toBytes at i1 i2
      exact log_reported_delivered_loc hd hbs h hroot htree htl fl q cf _ hgm (i / 1024)
        (by omega) (by omega) (hdiff _ (by omega) (by omega)) i (by omega) (by omega) i3
  · rintro ⟨ht, hdel⟩
    exact (log_validator_reports hlen hrt hd hbs h hroot htree hk htl fl j hj hdel).2 q hq ht
      (log_validator_ok hd hbs h htree hk htl hfull fl q)

/-- the same with the delivered list existentially quantified (`C07.validator_exact_partial`); the
hypothesis is collision freedom on `histValidEvals`: the evaluation list of the history followed by
the inputs of the validator run on the final sink.  `_partial` for the same reason as the global
theorem: the O3 side condition `hdiff`, pre-sized outboard, well-formed query, `RtTrue`. -/
theorem validator_exact_partial_loc (hlen : ∀ h, (hf.toBytes h).length = 32)
    (hrt : RtTrue hf d bs) (hd : d.length ≤ 2 ^ 63) (hbs : bs ≤ 10) (ops : List Op) (sink : Sink H)
    (hroot : sink.ob.root = Spec.root hf d) (htree : sink.ob.tree = ⟨d.length, bs⟩)
    (hk : sink.ob.kind ≠ .empty) (htl : sink.target.length = d.length)
    (hfull : sink.ob.tree.outboardSize ≤ sink.ob.data.length) (fl : Flavour) (q : Ranges)
    (hq : Ranges.WF q = true)
    (cf : CollisionFreeOn hf (fun x => x ∈ histValidEvals hf d ops sink fl q)) :
    ∃ wl : List (Nat × List UInt8),
      (∀ w ∈ wl, TrueLeaf d w.1 w.2) ∧
      (run hf ops sink).target = applyWrites sink.target wl ∧
      ∀ j, j < Tree.blocks ⟨d.length, bs⟩ →
        (∀ c, (ValidL.groupRange ⟨d.length, bs⟩ j).1 ≤ c →
          c < (ValidL.groupRange ⟨d.length, bs⟩ j).2 →
          ∃ i₀, c * 1024 ≤ i₀ ∧ i₀ < (c + 1) * 1024 ∧ i₀ < d.length ∧
            sink.target[i₀]? ≠ d[i₀]?) →
        (ValidL.groupRange ⟨d.length, bs⟩ j ∈
            (validRanges hf fl (run hf ops sink).ob (run hf ops sink).target q).yields ↔
          (Tree.blocks ⟨d.length, bs⟩ = 1 ∨
            ValidL.Touched d.length q (ValidL.groupRange ⟨d.length, bs⟩ j)) ∧
          GroupDelivered d bs wl j) := by
  have cfh : CollisionFreeOn hf (fun x => x ∈ histEvals hf d ops sink) :=
    cf.mono (fun x hx => List.mem_append_left _ hx)
  have cfv : CollisionFreeOn hf (fun x => x ∈ trueEvals hf d ++
      C06Loc.validEvals hf fl (run hf ops sink).ob (run hf ops sink).target q) := by
    apply cf.mono
    intro x hx
    rcases List.mem_append.1 hx with hx | hx
    · exact List.mem_append_left _ (histEvals_true hf d ops sink x hx)
    · exact List.mem_append_right _ hx
  obtain ⟨es, h⟩ := history_log_loc (bs := bs) hd ops sink hroot htree cfh
  exact ⟨_, (log_target h).1, (log_target h).2, fun j hj hdiff =>
    log_validator_exact_loc hlen hrt hd hbs h hroot htree hk htl hfull fl q hq cfv j hj hdiff⟩

/-- **Stage D: the validator after any history, local form** (`C07.validator_after_history`).
Collision freedom on the evaluation list of the history gives the log (parts (i) and (iii)); part
(ii) speaks about an arbitrary validator query `q` and needs, for that `q`, collision freedom on the
inputs of the honest hashing and of the validator run on the final sink. -/
theorem validator_after_history_loc (hlen : ∀ h, (hf.toBytes h).length = 32)
    (hrt : RtTrue hf d bs) (hd : d.length ≤ 2 ^ 63) (hbs : bs ≤ 10) (ops : List Op) (sink : Sink H)
    (hroot : sink.ob.root = Spec.root hf d) (htree : sink.ob.tree = ⟨d.length, bs⟩)
    (hk : sink.ob.kind ≠ .empty) (htl : sink.target.length = d.length) (fl : Flavour)
    (cf : CollisionFreeOn hf (fun x => x ∈ histEvals hf d ops sink)) :
    ∃ wl : List (Nat × List UInt8),
      (∀ w ∈ wl, TrueLeaf d w.1 w.2) ∧
      (run hf ops sink).target = applyWrites sink.target wl ∧
      (∀ j, j < Tree.blocks ⟨d.length, bs⟩ → GroupDelivered d bs wl j →
        ValidL.Verifiable hf fl (run hf ops sink).ob (run hf ops sink).target true
          (ValidL.groupRange ⟨d.length, bs⟩ j) ∧
        ∀ q, Ranges.WF q = true →
          (Tree.blocks ⟨d.length, bs⟩ = 1 ∨
            ValidL.Touched d.length q (ValidL.groupRange ⟨d.length, bs⟩ j)) →
          (validRanges hf fl (run hf ops sink).ob (run hf ops sink).target q).terminal = .ok →
          ValidL.groupRange ⟨d.length, bs⟩ j ∈
            (validRanges hf fl (run hf ops sink).ob (run hf ops sink).target q).yields) ∧
      (∀ q, CollisionFreeOn hf (fun x => x ∈ trueEvals hf d ++
          C06Loc.validEvals hf fl (run hf ops sink).ob (run hf ops sink).target q) →
        ∀ g, g ∈ (validRanges hf fl (run hf ops sink).ob (run hf ops sink).target q).yields →
        (((run hf ops sink).target.drop (g.1 * 1024)).take
            (min (g.2 * 1024) d.length - g.1 * 1024) =
          (d.drop (g.1 * 1024)).take (min (g.2 * 1024) d.length - g.1 * 1024) ∧
        g.1 * 1024 + (min (g.2 * 1024) d.length - g.1 * 1024) ≤ d.length) ∧
        ∀ c, g.1 ≤ c → c < g.2 →
          (∃ i₀, c * 1024 ≤ i₀ ∧ i₀ < (c + 1) * 1024 ∧ i₀ < d.length ∧
            sink.target[i₀]? ≠ d[i₀]?) →
          ∀ i, c * 1024 ≤ i → i < (c + 1) * 1024 → i < d.length → Cov wl i) ∧
      (sink.ob.tree.outboardSize ≤ sink.ob.data.length → ∀ q,
        (validRanges hf fl (run hf ops sink).ob (run hf ops sink).target q).terminal = .ok) := by
  obtain ⟨es, h⟩ := history_log_loc (bs := bs) hd ops sink hroot htree cf
  exact ⟨_, (log_target h).1, (log_target h).2,
    fun j hj hdel => log_validator_reports hlen hrt hd hbs h hroot htree hk htl fl j hj hdel,
    fun q cfv g hgm => ⟨log_validator_sound_loc hd hbs h hroot htree htl fl q cfv g hgm,
      fun c c1 c2 hdf => log_reported_delivered_loc hd hbs h hroot htree htl fl q cfv g hgm c c1
        c2 hdf⟩,
    fun hfull q => log_validator_ok hd hbs h htree hk htl hfull fl q⟩

/-! ## 3. collision extraction (NO hash hypothesis) -/

omit [LawfulBEq H] in
/-- generic form: whatever follows from collision freedom on the evaluation list of a history and
fails, exhibits a collision inside that list, and the quadratic search `findCollision` returns one -/
theorem history_collision_of [DecidableEq H] {ops : List Op} {sink : Sink H} {P : Prop}
    (hP : CollisionFreeOn hf (fun x => x ∈ histEvals hf d ops sink) → P) (hbad : ¬ P) :
    ∃ x y, findCollision hf (histEvals hf d ops sink) = some (x, y) ∧
      x ∈ histEvals hf d ops sink ∧ y ∈ histEvals hf d ops sink ∧
      x ≠ y ∧ hf.eval x = hf.eval y :=
  collision_of_not_cfOn (fun cf => hbad (hP cf))

/-- **Collision extraction for histories.**  Outboard with the true root, anything else arbitrary.
If after a history the sink is NOT "the initial target after writes of true leaves, the initial
outboard after successful saves of true pairs" – i.e. the target holds a delivered byte or the
outboard a saved pair that is not the blob's – then the finite list `histEvals hf d ops sink`
contains two different inputs with the same hash, and `findCollision` returns such a pair. -/
theorem history_collision_extraction [DecidableEq H] (hd : d.length ≤ 2 ^ 64 * 1024)
    (ops : List Op) (sink : Sink H) (hroot : sink.ob.root = Spec.root hf d)
    (hbad : ¬ ∃ (wl : List (Nat × List UInt8)) (pl : List (Nat × H × H)),
      (∀ w ∈ wl, TrueLeaf d w.1 w.2) ∧ (∀ p ∈ pl, TruePair hf d p.2.1 p.2.2) ∧
      (run hf ops sink).target = applyWrites sink.target wl ∧
      (run hf ops sink).ob = applySaves hf sink.ob pl) :
    ∃ x y, findCollision hf (histEvals hf d ops sink) = some (x, y) ∧
      x ∈ histEvals hf d ops sink ∧ y ∈ histEvals hf d ops sink ∧
      x ≠ y ∧ hf.eval x = hf.eval y :=
  history_collision_of (run_effect_loc hd ops sink hroot) hbad

/-- a wrong byte: pre-sized target; if after a history some position holds neither its initial
byte nor the blob's byte, the evaluation list contains a collision, which the search finds -/
theorem history_collision_byte [DecidableEq H] (hd : d.length ≤ 2 ^ 64 * 1024)
    (ops : List Op) (sink : Sink H) (hroot : sink.ob.root = Spec.root hf d)
    (hlen : sink.target.length = d.length) (i : Nat)
    (h1 : (run hf ops sink).target[i]? ≠ sink.target[i]?)
    (h2 : (run hf ops sink).target[i]? ≠ d[i]?) :
    ∃ x y, findCollision hf (histEvals hf d ops sink) = some (x, y) ∧
      x ∈ histEvals hf d ops sink ∧ y ∈ histEvals hf d ops sink ∧
      x ≠ y ∧ hf.eval x = hf.eval y := by
  refine history_collision_of (P := (run hf ops sink).target[i]? = sink.target[i]? ∨
    (run hf ops sink).target[i]? = d[i]?) (fun cf => ?_) (fun h => h.elim h1 h2)
  obtain ⟨wl, _, _, h⟩ := inv_loc hd ops sink hroot cf
  exact ((h hlen).2 i).2.2

/-- a wrong pair: true geometry; if after a history the outboard is NOT the initial one after
successful saves of true pairs of existing nodes of level `≥ bs` under their own labels, the
evaluation list contains a collision, which the search finds -/
theorem history_collision_pair [DecidableEq H] (hd : d.length ≤ 2 ^ 63)
    (ops : List Op) (sink : Sink H) (hroot : sink.ob.root = Spec.root hf d)
    (htree : sink.ob.tree = ⟨d.length, bs⟩)
    (hbad : ¬ ∃ pl : List (Nat × H × H),
      (∀ p ∈ pl, ∃ k L, bs ≤ L ∧ midOf k L < nChunks d.length ∧ p.1 = nodeOf k L ∧
        (p.2.1, p.2.2) = Spec.pair hf d k L) ∧
      SavesOk hf sink.ob pl ∧
      (run hf ops sink).ob = applySaves hf sink.ob pl) :
    ∃ x y, findCollision hf (histEvals hf d ops sink) = some (x, y) ∧
      x ∈ histEvals hf d ops sink ∧ y ∈ histEvals hf d ops sink ∧
      x ≠ y ∧ hf.eval x = hf.eval y :=
  history_collision_of (saved_pairs_labelled_loc hd ops sink hroot htree) hbad

/-! ## 4. non-vacuity -/

omit [BEq H] [LawfulBEq H] in
/-- the global wire round trip (with 32-byte hashes) gives the round trip on the hashes of the true
tree that Stage D needs -/
theorem rtTrue_of_rt (hrt : ∀ h, hf.ofBytes (hf.toBytes h) = h)
    (hlen : ∀ h, (hf.toBytes h).length = 32) (hd : d.length ≤ 2 ^ 63) : RtTrue hf d bs := by
  intro k L _ hm
  have hL : L ≤ 64 := Nat.le_of_lt (level_lt_64 hd hm)
  unfold Spec.pairBytes
  simp only [Bits.indexOf_nodeOf hL, Bits.levelOf_nodeOf hL]
  exact DecodeSpec.parsePair_pair hrt hlen _ _

section examples

/-- two proofs of the same statement (used to display that a global theorem IS the local one applied
to `CollisionFree.on`) -/
private theorem sameStatement {P : Prop} (_ _ : P) : True := trivial

/-! ### (a) the global C07 theorems are the `_loc` ones at `CollisionFree.on` -/

example (cf : CollisionFree hf) (hd : d.length ≤ 2 ^ 64 * 1024) (fl : Flavour) (s : List UInt8)
    (ranges : Ranges) (sink : Sink H) (fw fs : Option Nat)
    (hroot : sink.ob.root = Spec.root hf d) : True :=
  sameStatement (C07.decodeRangesF_sound cf hd fl s ranges sink fw fs hroot)
    (decodeRangesF_sound_loc hd fl s ranges sink fw fs hroot (cf.on _))

example (cf : CollisionFree hf) (hd : d.length ≤ 2 ^ 64 * 1024) (ops : List Op) (sink : Sink H)
    (hroot : sink.ob.root = Spec.root hf d) : True :=
  sameStatement (C07.inv cf hd ops sink hroot) (inv_loc hd ops sink hroot (cf.on _))

example (cf : CollisionFree hf) (hd : d.length ≤ 2 ^ 64 * 1024) (ops : List Op) (sink : Sink H)
    (hroot : sink.ob.root = Spec.root hf d) (hlen : sink.target.length = d.length) (n : Nat) :
    True :=
  sameStatement (C07.inv_prefix cf hd ops sink hroot hlen n)
    (inv_prefix_loc hd ops sink hroot hlen n (cf.on _))

example (cf : CollisionFree hf) (hd : d.length ≤ 2 ^ 64 * 1024) (ops more : List Op)
    (sink : Sink H) (hroot : sink.ob.root = Spec.root hf d) : True :=
  sameStatement (C07.inv_extend cf hd ops more sink hroot)
    (inv_extend_loc hd ops more sink hroot (cf.on _))

example (cf : CollisionFree hf) (hd : d.length ≤ 2 ^ 64 * 1024) (ops : List Op) (sink : Sink H)
    (hroot : sink.ob.root = Spec.root hf d) (hlen : sink.target.length = d.length) : True :=
  sameStatement (C07.converges cf hd ops sink hroot hlen)
    (converges_loc hd ops sink hroot hlen (cf.on _))

example (cf : CollisionFree hf) (hd : d.length ≤ 2 ^ 64 * 1024) (ops : List Op) (sink : Sink H)
    (hroot : sink.ob.root = Spec.root hf d) : True :=
  sameStatement (C07.saved_pairs_true cf hd ops sink hroot)
    (saved_pairs_true_loc hd ops sink hroot (cf.on _))

example (cf : CollisionFree hf) (hd : d.length ≤ 2 ^ 63) (ops : List Op) (sink : Sink H)
    (hroot : sink.ob.root = Spec.root hf d) (htree : sink.ob.tree = ⟨d.length, bs⟩) : True :=
  sameStatement (C07.history_log cf hd ops sink hroot htree)
    (history_log_loc hd ops sink hroot htree (cf.on _))

example (cf : CollisionFree hf) (hd : d.length ≤ 2 ^ 63) (ops : List Op) (sink : Sink H)
    (hroot : sink.ob.root = Spec.root hf d) (htree : sink.ob.tree = ⟨d.length, bs⟩) : True :=
  sameStatement (C07.saved_pairs_labelled cf hd ops sink hroot htree)
    (saved_pairs_labelled_loc hd ops sink hroot htree (cf.on _))

example (cf : CollisionFree hf) (hd : d.length ≤ 2 ^ 63) (fl : Flavour) (s : List UInt8)
    (q : Ranges) (sink : Sink H) (fw fs : Option Nat) (hroot : sink.ob.root = Spec.root hf d)
    (htree : sink.ob.tree = ⟨d.length, bs⟩) : True :=
  sameStatement (C07.ancestors_saved_before_leaf cf hd fl s q sink fw fs hroot htree)
    (ancestors_saved_before_leaf_loc hd fl s q sink fw fs hroot htree (cf.on _))

example (cf : CollisionFree hf) (hlen : ∀ h, (hf.toBytes h).length = 32) (hd : d.length ≤ 2 ^ 63)
    (hbs : bs ≤ 10) (ops : List Op) (sink : Sink H) (hroot : sink.ob.root = Spec.root hf d)
    (htree : sink.ob.tree = ⟨d.length, bs⟩) (hk : sink.ob.kind ≠ .empty) : True :=
  sameStatement (C07.ancestors_hold cf hlen hd hbs ops sink hroot htree hk)
    (ancestors_hold_loc hlen hd hbs ops sink hroot htree hk (cf.on _))

example (cf : CollisionFree hf) (hlen : ∀ h, (hf.toBytes h).length = 32) (hd : d.length ≤ 2 ^ 63)
    (hbs : bs ≤ 10) (ops : List Op) (sink : Sink H) (hroot : sink.ob.root = Spec.root hf d)
    (htree : sink.ob.tree = ⟨d.length, bs⟩) (hk : sink.ob.kind ≠ .empty)
    (hsz : sink.ob.data.length ≤ sink.ob.tree.outboardSize) : True :=
  sameStatement (C07.converges_outboard cf hlen hd hbs ops sink hroot htree hk hsz)
    (converges_outboard_loc hlen hd hbs ops sink hroot htree hk hsz (cf.on _))

example (cf : CollisionFree hf) (hd : d.length ≤ 2 ^ 63) (hbs : bs ≤ 10) {ops : List Op}
    {sink : Sink H} {es : List (Ev H)} (h : LabelledLog hf d bs ops sink es)
    (hroot : sink.ob.root = Spec.root hf d) (htree : sink.ob.tree = ⟨d.length, bs⟩)
    (htl : sink.target.length = d.length) (fl : Flavour) (q : Ranges) (g : Nat × Nat)
    (hgm : g ∈ (validRanges hf fl (run hf ops sink).ob (run hf ops sink).target q).yields) :
    True :=
  sameStatement (C07.log_validator_sound cf hd hbs h hroot htree htl fl q g hgm)
    (log_validator_sound_loc hd hbs h hroot htree htl fl q (cf.on _) g hgm)

example (cf : CollisionFree hf) (hlen : ∀ h, (hf.toBytes h).length = 32) (hrt : RtTrue hf d bs)
    (hd : d.length ≤ 2 ^ 63) (hbs : bs ≤ 10) (ops : List Op) (sink : Sink H)
    (hroot : sink.ob.root = Spec.root hf d) (htree : sink.ob.tree = ⟨d.length, bs⟩)
    (hk : sink.ob.kind ≠ .empty) (htl : sink.target.length = d.length)
    (hfull : sink.ob.tree.outboardSize ≤ sink.ob.data.length) (fl : Flavour) (q : Ranges)
    (hq : Ranges.WF q = true) : True :=
  sameStatement
    (C07.validator_exact_partial cf hlen hrt hd hbs ops sink hroot htree hk htl hfull fl q hq)
    (validator_exact_partial_loc hlen hrt hd hbs ops sink hroot htree hk htl hfull fl q hq
      (cf.on _))

/-- `validator_after_history`: the local theorem carries the per-query hypothesis inside part (ii);
with the global hypothesis it is discharged by `cf.on _` -/
example (cf : CollisionFree hf) (hlen : ∀ h, (hf.toBytes h).length = 32) (hrt : RtTrue hf d bs)
    (hd : d.length ≤ 2 ^ 63) (hbs : bs ≤ 10) (ops : List Op) (sink : Sink H)
    (hroot : sink.ob.root = Spec.root hf d) (htree : sink.ob.tree = ⟨d.length, bs⟩)
    (hk : sink.ob.kind ≠ .empty) (htl : sink.target.length = d.length) (fl : Flavour) : True := by
  obtain ⟨wl, h1, h2, h3, h4, h5⟩ :=
    validator_after_history_loc hlen hrt hd hbs ops sink hroot htree hk htl fl (cf.on _)
  exact sameStatement (C07.validator_after_history cf hlen hrt hd hbs ops sink hroot htree hk htl fl)
    ⟨wl, h1, h2, h3, fun q g hg => h4 q (cf.on _) g hg, h5⟩

/-! ### (b) a hash WITH the 32-byte wire round trip (`toy32`, not globally collision free)

A blob of three chunks, a pre-sized target (all nines) and a pre-sized pre-order memory outboard
with the true root and the true geometry.  A two-call history:
1. sync, full query, the honest stream with one byte of chunk 1 flipped – the root pair, the left
   pair and chunk 0 are accepted (two saves, one write), then `leafHashMismatch 1`;
2. fsm, query "from chunk 1 on", the honest stream, with the SECOND target write failing – the
   pairs are saved again, chunk 1 is written, the write of chunk 2 fails.
`toy32` evaluates 5 inputs for the blob and 4 + 4 in the two (fault-free) runs; collision freedom on
these 13 inputs is decided by the kernel. -/

private def tBlob : List UInt8 := (List.range 2049).map UInt8.ofNat
private def tHonest : List UInt8 := Spec.encode toy32 tBlob 0 [0]
private def tTampered : List UInt8 := tHonest.take 1500 ++ [99] ++ tHonest.drop 1501
private def tTail : List UInt8 := Spec.encode toy32 tBlob 0 [1]

private def tSink : Sink H32 :=
  { ob := { kind := .preMem, root := Spec.root toy32 tBlob, tree := ⟨2049, 0⟩,
            data := List.replicate 128 0 },
    target := List.replicate 2049 9 }

private def tOp1 : Op := ⟨.sync, tTampered, [0], none, none⟩
private def tOp2 : Op := ⟨.fsm, tTail, [1], some 1, none⟩
private def tHist : List Op := [tOp1, tOp2]

private theorem tBlob_length : tBlob.length = 2049 := by
  simp only [tBlob, List.length_map, List.length_range]
private theorem tBlob_len : tBlob.length ≤ 2 ^ 64 * 1024 := by rw [tBlob_length]; omega
private theorem tBlob_le : tBlob.length ≤ 2 ^ 63 := by rw [tBlob_length]; omega
private theorem tSink_root : tSink.ob.root = Spec.root toy32 tBlob := by simp only [tSink]
private theorem tSink_tree : tSink.ob.tree = ⟨tBlob.length, 0⟩ := by
  rw [tBlob_length]; simp only [tSink]
private theorem tSink_len : tSink.target.length = tBlob.length := by
  rw [tBlob_length]; simp only [tSink, List.length_replicate]
private theorem tSink_kind : tSink.ob.kind ≠ .empty := by simp [tSink]

/-- **the local hypothesis is satisfiable together with the wire round trip and 32-byte hashes**,
while the global one is not -/
private theorem tHist_cf : CollisionFreeOn toy32 (fun x => x ∈ histEvals toy32 tBlob tHist tSink) :=
  collisionFreeOn_list (by decide +kernel)

example : (∀ h, toy32.ofBytes (toy32.toBytes h) = h) ∧ (∀ h, (toy32.toBytes h).length = 32) ∧
    ¬ CollisionFree toy32 ∧
    CollisionFreeOn toy32 (fun x => x ∈ histEvals toy32 tBlob tHist tSink) :=
  ⟨toy32_rt, toy32_len, toy32_not_cf, tHist_cf⟩

/-- the history is not trivial: 13 inputs; the first call ends in a hash mismatch, the second in the
injected write failure; afterwards chunks 0 and 1 of the target hold the blob's bytes, the last byte
is still the initial one, the outboard is complete, and the validator (sync, full query) reports
exactly the two delivered chunk groups -/
private theorem tFacts : (histEvals toy32 tBlob tHist tSink).length = 13 ∧
    (decodeRangesF toy32 .sync tTampered [0] tSink none none).2 = .err (.leafHashMismatch 1) ∧
    (decodeRangesF toy32 .fsm tTail [1] (step toy32 tSink tOp1) (some 1) none).2 =
      .err (.io ⟨.other, true⟩) ∧
    (run toy32 tHist tSink).target.take 2048 = tBlob.take 2048 ∧
    (run toy32 tHist tSink).target.drop 2048 = [9] ∧
    (run toy32 tHist tSink).ob.data = Spec.preOutboard toy32 tBlob 0 ∧
    (validRanges toy32 .sync (run toy32 tHist tSink).ob (run toy32 tHist tSink).target
      [0]).yields = [(0, 1), (1, 2)] := by decide +kernel

example := decodeRangesF_sound_loc tBlob_len .sync tTampered [0] tSink none none tSink_root
  (tHist_cf.mono (histEvals_prefix tHist tSink 1))

example := inv_loc tBlob_len tHist tSink tSink_root tHist_cf

example := inv_prefix_loc tBlob_len tHist tSink tSink_root tSink_len 1
  (tHist_cf.mono (histEvals_prefix tHist tSink 1))

example := inv_prefix_loc_all tBlob_len tHist tSink tSink_root tSink_len tHist_cf 1

example := inv_extend_loc tBlob_len [tOp1] [tOp2] tSink tSink_root tHist_cf

example := converges_loc tBlob_len tHist tSink tSink_root tSink_len tHist_cf

example := saved_pairs_true_loc tBlob_len tHist tSink tSink_root tHist_cf

example := history_log_loc (bs := 0) tBlob_le tHist tSink tSink_root tSink_tree tHist_cf

example := saved_pairs_labelled_loc (bs := 0) tBlob_le tHist tSink tSink_root tSink_tree tHist_cf

example := ancestors_saved_before_leaf_loc (bs := 0) tBlob_le .sync tTampered [0] tSink none none
  tSink_root tSink_tree (tHist_cf.mono (histEvals_prefix tHist tSink 1))

example := ancestors_hold_loc (bs := 0) toy32_len tBlob_le (by decide) tHist tSink tSink_root
  tSink_tree tSink_kind tHist_cf

example := converges_outboard_loc (bs := 0) toy32_len tBlob_le (by decide) tHist tSink tSink_root
  tSink_tree tSink_kind (by decide) tHist_cf

/-- Stage D needs `RtTrue`, which follows from the global wire round trip of `toy32` -/
private theorem tRt : RtTrue toy32 tBlob 0 := rtTrue_of_rt toy32_rt toy32_len tBlob_le

example := validator_after_history_loc (bs := 0) toy32_len tRt tBlob_le (by decide) tHist tSink
  tSink_root tSink_tree tSink_kind tSink_len .sync tHist_cf

/-- the validator run on the final sink (sync, full query) evaluates 5 more inputs; collision
freedom on all 18 is again decided by the kernel -/
private theorem tHistValid_cf :
    CollisionFreeOn toy32 (fun x => x ∈ histValidEvals toy32 tBlob tHist tSink .sync [0]) :=
  collisionFreeOn_list (by decide +kernel)

example := validator_exact_partial_loc (bs := 0) toy32_len tRt tBlob_le (by decide) tHist tSink
  tSink_root tSink_tree tSink_kind tSink_len (by decide) .sync [0] (by decide) tHistValid_cf

/-- the validator indeed reports the two delivered chunk groups, and not the third -/
private theorem tYields : (validRanges toy32 .sync (run toy32 tHist tSink).ob
    (run toy32 tHist tSink).target [0]).yields = [(0, 1), (1, 2)] := tFacts.2.2.2.2.2.2

/-- `log_validator_sound_loc`, `log_reported_delivered_loc`, `log_validator_exact_loc` on the log of
the history -/
example : True := by
  obtain ⟨es, h⟩ := history_log_loc (bs := 0) tBlob_le tHist tSink tSink_root tSink_tree tHist_cf
  have cfv : CollisionFreeOn toy32 (fun x => x ∈ trueEvals toy32 tBlob ++
      C06Loc.validEvals toy32 .sync (run toy32 tHist tSink).ob (run toy32 tHist tSink).target
        [0]) := by
    apply tHistValid_cf.mono
    intro x hx
    rcases List.mem_append.1 hx with hx | hx
    · exact List.mem_append_left _ (histEvals_true toy32 tBlob tHist tSink x hx)
    · exact List.mem_append_right _ hx
  have hgm : (1, 2) ∈ (validRanges toy32 .sync (run toy32 tHist tSink).ob
      (run toy32 tHist tSink).target [0]).yields := by rw [tYields]; decide
  have _h1 := log_validator_sound_loc tBlob_le (by decide) h tSink_root tSink_tree tSink_len .sync
    [0] cfv (1, 2) hgm
  have _h2 := log_reported_delivered_loc tBlob_le (by decide) h tSink_root tSink_tree tSink_len
    .sync [0] cfv (1, 2) hgm 1 (Nat.le_refl _) (by decide)
    ⟨1024, by decide, by decide, by rw [tBlob_length]; decide, by decide +kernel⟩
  have _h3 := log_validator_exact_loc toy32_len tRt tBlob_le (by decide) h tSink_root tSink_tree
    tSink_kind tSink_len (by decide) .sync [0] (by decide) cfv 0
    (by rw [tBlob_length]; decide)
  trivial

/-! ### (c) collision extraction: the constant hash, a history that delivers a forged byte -/

private def unitHash : HashFns Unit where
  chunkCv _ _ _ := ()
  parentCv _ _ _ := ()
  ofBytes _ := ()
  toBytes _ := List.replicate 32 0

private def uSink : Sink Unit :=
  { ob := { kind := .preMem, root := Spec.root unitHash [1], tree := ⟨1, 0⟩, data := [] },
    target := [0] }

/-- a truncated call, then a call whose stream carries the forged chunk `[2]` for the blob `[1]` -/
private def uHist : List Op := [⟨.fsm, [], [0], none, none⟩, ⟨.sync, [2], [0], none, none⟩]

private theorem uTarget : (run unitHash uHist uSink).target = [2] := by decide +kernel

private theorem uBad : ¬ ∃ (wl : List (Nat × List UInt8)) (pl : List (Nat × Unit × Unit)),
    (∀ w ∈ wl, TrueLeaf [1] w.1 w.2) ∧ (∀ p ∈ pl, TruePair unitHash [1] p.2.1 p.2.2) ∧
    (run unitHash uHist uSink).target = applyWrites uSink.target wl ∧
    (run unitHash uHist uSink).ob = applySaves unitHash uSink.ob pl := by
  rintro ⟨wl, _, hw, _, ht, _⟩
  have hm := Mixed.applyWrites (d := [1]) (t₀ := [0]) wl uSink.target ⟨rfl, fun _ => .inl rfl⟩ hw
  rw [← ht, uTarget] at hm
  have h0 := hm.2 0
  revert h0
  decide

example : ∃ x y, findCollision unitHash (histEvals unitHash [1] uHist uSink) = some (x, y) ∧
    x ∈ histEvals unitHash [1] uHist uSink ∧ y ∈ histEvals unitHash [1] uHist uSink ∧
    x ≠ y ∧ unitHash.eval x = unitHash.eval y :=
  history_collision_extraction (by decide) uHist uSink rfl uBad

example : ∃ x y, findCollision unitHash (histEvals unitHash [1] uHist uSink) = some (x, y) ∧
    x ∈ histEvals unitHash [1] uHist uSink ∧ y ∈ histEvals unitHash [1] uHist uSink ∧
    x ≠ y ∧ unitHash.eval x = unitHash.eval y :=
  history_collision_byte (by decide) uHist uSink rfl rfl 0
    (by rw [uTarget]; decide) (by rw [uTarget]; decide)

/-- … and the search indeed computes the collision: the true chunk against the forged one -/
example : findCollision unitHash (histEvals unitHash [1] uHist uSink) =
    some (.chunk 0 [1] true, .chunk 0 [2] true) := by decide +kernel

/-! ### (d) a wrong PAIR: a hash whose parent hash ignores the children

Blob of two chunks, true geometry, pre-sized outboard (all zeros = the stored true pair `(0, 0)`).
The stream starts with the forged pair `(1, 1)`; the parent check passes (the parent hash is
constant), the forged pair is saved under the root's label, then the stream ends. -/

private def cHash : HashFns Nat where
  chunkCv _ _ _ := 0
  parentCv _ _ _ := 0
  ofBytes b := (b.headD 0).toNat
  toBytes h := List.replicate 32 (UInt8.ofNat h)

private def cBlob : List UInt8 := List.replicate 1025 7

private def cSink : Sink Nat :=
  { ob := { kind := .preMem, root := Spec.root cHash cBlob, tree := ⟨1025, 0⟩,
            data := List.replicate 64 0 },
    target := List.replicate 1025 0 }

private def cHist : List Op := [⟨.sync, List.replicate 64 1, [0], none, none⟩]

private theorem cSave : cSink.ob.save cHash 0 (0, 0) = .ok cSink.ob := by rfl

private theorem cBad : ¬ ∃ pl : List (Nat × Nat × Nat),
    (∀ p ∈ pl, ∃ k L, 0 ≤ L ∧ midOf k L < nChunks cBlob.length ∧ p.1 = nodeOf k L ∧
      (p.2.1, p.2.2) = Spec.pair cHash cBlob k L) ∧
    SavesOk cHash cSink.ob pl ∧
    (run cHash cHist cSink).ob = applySaves cHash cSink.ob pl := by
  rintro ⟨pl, hp, -, ho⟩
  have key : ∀ pl : List (Nat × Nat × Nat), (∀ p ∈ pl, p = (0, 0, 0)) →
      applySaves cHash cSink.ob pl = cSink.ob := by
    intro pl
    induction pl with
    | nil => intro _; rfl
    | cons p pl ih =>
      intro h
      have hp0 := h p List.mem_cons_self
      subst hp0
      simp only [applySaves, List.foldl_cons, cSave]
      exact ih (fun p hp => h p (List.mem_cons_of_mem _ hp))
  have hall : ∀ p ∈ pl, p = (0, 0, 0) := by
    intro p hpm
    obtain ⟨k, L, -, hm, h1, h2⟩ := hp p hpm
    have hn : nChunks cBlob.length = 2 := by decide
    rw [hn] at hm
    have e : midOf k L = k * 2 ^ (L + 1) + 2 ^ L := rfl
    have hpos := Nat.two_pow_pos L
    have hL : L = 0 := by
      cases L with
      | zero => rfl
      | succ L => rw [e, Nat.pow_succ 2 L] at hm; omega
    subst hL
    have hk : k = 0 := by rw [e] at hm; omega
    subst hk
    have h3 : Spec.pair cHash cBlob 0 0 = (0, 0) := by decide +kernel
    have h4 : nodeOf 0 0 = 0 := by decide
    rw [h3] at h2
    rw [h4] at h1
    obtain ⟨a, b, c⟩ := p
    simp only [Prod.mk.injEq] at h2 h1 ⊢
    exact ⟨h1, h2.1, h2.2⟩
  rw [key pl hall] at ho
  have hdat := congrArg Store.data ho
  revert hdat
  decide +kernel

example : ∃ x y, findCollision cHash (histEvals cHash cBlob cHist cSink) = some (x, y) ∧
    x ∈ histEvals cHash cBlob cHist cSink ∧ y ∈ histEvals cHash cBlob cHist cSink ∧
    x ≠ y ∧ cHash.eval x = cHash.eval y :=
  history_collision_pair (bs := 0) (by decide) cHist cSink rfl (by decide) cBad

/-- the collision behind the wrong pair: the root input of the honest hashing against the forged
one, both in the list (the search returns the first collision of the list, which for this hash is
the root input against the first chunk input) -/
example : HashIn.parent 0 0 true ∈ histEvals cHash cBlob cHist cSink ∧
    HashIn.parent 1 1 true ∈ histEvals cHash cBlob cHist cSink ∧
    cHash.eval (.parent 0 0 true) = cHash.eval (.parent 1 1 true) ∧
    findCollision cHash (histEvals cHash cBlob cHist cSink) =
      some (.parent 0 0 true, .chunk 0 (List.replicate 1024 7) false) := by decide +kernel

end examples

/-
## Status (C07, local collision freedom)

All theorems: axioms ⊆ {propext, Classical.choice, Quot.sound}.  Lemmas: `Lemmas/C07LocL.lean`
(`histEvals`, `callEvals`, `fauxEffect_loc`, `run_effect_on/_loc`, `stepC_parent_loc`,
`stepC_leaf_loc`, `run_good_loc`, `decodeAll_good_on`, `step_log_on`, `run_log_on/_loc`,
`collision_of_not_cfOn`).

Local hypothesis: `CollisionFreeOn hf (fun x => x ∈ histEvals hf d ops sink)` with
`histEvals hf d ops sink = trueEvals hf d ++ ops.flatMap (fun op => runEvals hf op.fl sink.ob.root
sink.ob.tree op.ranges op.stream)`.  CHOICE: the FAULT-FREE `runEvals` of every call (a superset of
what the fault-injected call evaluates; independent of `op.fw` / `op.fs` and of the state of the
sink).  As in `Props/C01Loc.lean` the proofs only use the inputs of item-yielding steps, so the
theorems also hold for that smaller list (not stated).

PROVED
1. `Props/C07.lean`:
* `decodeRangesF_sound_loc` – C01 for one fault-injected call (list of the one-call history)
* `inv_loc`                – invariant of histories
* `inv_prefix_loc`         – the same at the prefix `ops.take n`, hypothesis on the list of THAT
                             prefix only; `inv_prefix_loc_all`: all prefixes from the list of `ops`
* `inv_extend_loc`         – the delivered list only grows (list of `ops ++ more`)
* `converges_loc`          – all positions delivered ⇒ target = blob (`C07.converges_target` has no
                             hash hypothesis and is reused)
* `saved_pairs_true_loc`   – final outboard = initial one after saves of `TruePair`s
2. `Props/C07Conv.lean` (true geometry `sink.ob.tree = ⟨d.length, bs⟩`, `d.length ≤ 2^63`):
* `history_log_loc`        – every history has a `LabelledLog`; the `log_*` theorems of C07Conv
                             WITHOUT hash hypothesis (`log_order`, `log_target`, `log_saves`,
                             `log_ancestors_hold`, `log_converges`, `log_validator_reports`,
                             `log_validator_ok`) apply to it unchanged
* `saved_pairs_labelled_loc`, `ancestors_saved_before_leaf_loc`, `ancestors_hold_loc`,
  `converges_outboard_loc` – Stages A, B, C
* `log_validator_sound_loc`, `log_reported_delivered_loc`, `log_validator_exact_loc` – Stage D for a
                             given log; hypothesis: collision freedom on `trueEvals hf d ++
                             validEvals hf fl fin.ob fin.target q` (`C06Loc.reported_true_bytes_run`)
* `validator_after_history_loc` – Stage D packaged; hypothesis on `histEvals`, and INSIDE part (ii),
                             per validator query `q`, on `trueEvals ++ validEvals … q`
3. NO hash hypothesis:
* `history_collision_of`   – anything that follows from the local hypothesis and fails yields a
                             collision in `histEvals`, and `findCollision` returns one
* `history_collision_extraction` – final sink not "writes of true leaves / saves of true pairs"
* `history_collision_byte` – pre-sized target, a position holding neither its initial nor the blob's
                             byte
* `history_collision_pair` – true geometry, outboard not the result of labelled saves of true pairs
4. `rtTrue_of_rt` – the global wire round trip (+ 32-byte hashes) gives `RtTrue`.

PARTIAL
* `validator_exact_partial_loc` – `C07.validator_exact_partial` with collision freedom on
  `histValidEvals` (= `histEvals ++ validEvals` of the final validator run); `_partial` for exactly
  the reasons of the global theorem (O3 side condition `hdiff`, pre-sized outboard, well-formed
  query, `RtTrue`), not because of the localisation.

OPEN: none of the theorems of `Props/C07.lean` / `Props/C07Conv.lean` that carry a hash hypothesis
is left unlocalised.

Non-vacuity
(a) every global theorem of C07 / C07Conv with a hash hypothesis is DEFINITIONALLY the `_loc`
    theorem applied to `CollisionFree.on` (`sameStatement`: both terms have the same type; for
    `validator_after_history` after discharging the per-query hypothesis with `cf.on _`);
(b) `toy32` (32-byte hashes, `ofBytes ∘ toBytes = id`, NOT globally collision free): 3-chunk blob,
    pre-sized sink, two-call history (tampered stream ending in `leafHashMismatch 1`; honest tail
    stream with the second write failing).  `CollisionFreeOn` on the 13 inputs of `histEvals`, and
    on the 18 of `histValidEvals`, by `decide +kernel`; every `_loc` theorem is instantiated; the
    validator reports exactly the two delivered groups;
(c) constant hash, blob `[1]`, a history delivering the forged byte `[2]`:
    `history_collision_extraction` / `_byte`; the search returns `chunk 0 [1] true` vs
    `chunk 0 [2] true`;
(d) a hash whose parent hash ignores its children, 2-chunk blob, forged root pair `(1, 1)` saved:
    `history_collision_pair`; the collision is `parent 0 0 true` vs `parent 1 1 true`.

Remarks
* As in C01Loc the invariant had to carry the HONEST root flag: `run_good_loc` requires
  `f = isRootIv d (startOf k L) (min (endOf k L) n)` for the chaining value on the stack (`run_good`
  allows any `f`), because only those evaluations are in `trueEvals`.
* The bridge from the list machine to the model (`DecodeSpec.runEvals_sup`, `Lemmas/SizeProofLoc`)
  already existed; the only new list lemma is `runLEvals_append_sub` (the inputs of a run over a
  prefix of the plan are inputs of the run over the plan, also when the prefix run fails).
* Model: nothing suspicious found.
-/

end Bao.C07Loc
