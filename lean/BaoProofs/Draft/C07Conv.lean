import BaoProofs.Lemmas.HistSlotL

/-!
# C07, second half: labelled saves, ancestors before leaves, convergence of the outboard

`Props/C07.lean` proves, for every history of fault-injected `decode_ranges` calls with ARBITRARY
streams into one sink whose outboard carries the true root: the target is the initial one after
writes of true leaves, every saved pair is the true pair of SOME node.  Here the claimed geometry is
the TRUE one, `sink.ob.tree = ⟨d.length, bs⟩` (with a wrong claimed size the node labels of the
claimed tree are meaningless, DESIGN.md C01), and the node labels are followed through the run.

Vocabulary (`Lemmas/HistLabelL.lean`, `Lemmas/HistLogL.lean`, `Lemmas/HistSlotL.lean`, namespace
`Bao.C07L`; `Ev`, `applyEvs`, `writes`, `saves` are those of C10, `Lemmas/FaultL.lean`):
* `Ev.save node l r` / `Ev.write off data` – one COMPLETED call on the outboard / on the target;
  `applyEvs hf sink es` – the sink after the calls `es`; `EvsOk hf sink es` – every save of `es`
  succeeds when `es` is applied in order; `SavesOk hf ob pl` – the same for a list of saves;
* `(c / 2^(L+1), L)` is the ancestor of chunk `c` at level `L`; it exists iff
  `midOf (c / 2^(L+1)) L < nChunks d.length`, and is persisted iff moreover `bs ≤ L`;
* `Holds hf d ob x` – the slot of node `x` in `ob` exists, lies inside the backing, and its 64 bytes
  are `Spec.pairBytes hf d x`;
* `Cov wl i` – byte position `i` lies in a write of `wl` (the delivered positions, as in C07).

Hypotheses: `CollisionFree hf`, `d.length ≤ 2^63`; for everything about stored bytes `bs ≤ 10` and
`hlen : ∀ h, (hf.toBytes h).length = 32`.  (`CollisionFree hf` and `hlen` are jointly satisfiable,
see `h32`; together with the round trip `ofBytes (toBytes h) = h` they are not,
`Lemmas/CFUnsat.lean`, and no theorem here assumes the round trip.)
-/

namespace Bao.C07

open Bao Bao.Spec Bao.C01 Bao.C07L
open Bao.FaultL (Ev applyEvs)

variable {H : Type} [BEq H] [LawfulBEq H] {hf : HashFns H} {d : List UInt8} {bs : Nat}

/-! ## Stage A: every save carries the label of the node whose true pair it writes -/

/-- **Labelled saves.**  After any history into a sink with the true root and the true geometry the
outboard is the initial one after a list of SUCCESSFUL saves `(node, l, r)`, each of which writes
the true pair of an existing node of level `≥ bs` of the true tree under that node's own label. -/
theorem saved_pairs_labelled (cf : CollisionFree hf) (hd : d.length ≤ 2 ^ 63) (ops : List Op)
    (sink : Sink H) (hroot : sink.ob.root = Spec.root hf d)
    (htree : sink.ob.tree = ⟨d.length, bs⟩) :
    ∃ pl : List (Nat × H × H),
      (∀ p ∈ pl, ∃ k L, bs ≤ L ∧ midOf k L < nChunks d.length ∧ p.1 = nodeOf k L ∧
        (p.2.1, p.2.2) = Spec.pair hf d k L) ∧
      SavesOk hf sink.ob pl ∧
      (run hf ops sink).ob = applySaves hf sink.ob pl := by
  obtain ⟨es, h1, h2, h3⟩ := run_log (bs := bs) cf hd ops sink hroot htree
  refine ⟨FaultL.saves es, ?_, EvsOk.saves es sink h2, ?_⟩
  · intro p hp
    obtain ⟨k, L, -, hb, hm, hn, hp⟩ := trace_save h3 (mem_saves.1 hp)
    exact ⟨k, L, hb, hm, hn, hp⟩
  · rw [h1, FaultL.applyEvs_ob, applySaves_eq]

/-! ## Stage B: every persisted ancestor is saved before the leaf is written -/

/-- **Ancestors before leaves, within one call.**  One fault-injected `decode_ranges` call
(arbitrary stream, arbitrary faults) is the application of a list `es` of completed calls, all
successful, in which every save writes the true pair of an existing node of level `≥ bs` under its
own label, and every write is the write of a true leaf `[c, e)` such that for every chunk `x` of the
leaf every existing ancestor of `x` of level `≥ bs` has been saved EARLIER IN THE SAME CALL. -/
theorem ancestors_saved_before_leaf (cf : CollisionFree hf) (hd : d.length ≤ 2 ^ 63)
    (fl : Flavour) (s : List UInt8) (q : Ranges) (sink : Sink H) (fw fs : Option Nat)
    (hroot : sink.ob.root = Spec.root hf d) (htree : sink.ob.tree = ⟨d.length, bs⟩) :
    ∃ es : List (Ev H),
      (decodeRangesF hf fl s q sink fw fs).1 = applyEvs hf sink es ∧ EvsOk hf sink es ∧
      (∀ a node l r b, es = a ++ Ev.save node l r :: b →
        ∃ k L, bs ≤ L ∧ midOf k L < nChunks d.length ∧ node = nodeOf k L ∧
          (l, r) = Spec.pair hf d k L) ∧
      (∀ a off data b, es = a ++ Ev.write off data :: b →
        ∃ c e, Sub d c e ∧ off = c * 1024 ∧ data = slice d c e ∧
          ∀ x, c ≤ x → x < e → ∀ L, bs ≤ L → midOf (x / 2 ^ (L + 1)) L < nChunks d.length →
            Ev.save (nodeOf (x / 2 ^ (L + 1)) L) (Spec.pair hf d (x / 2 ^ (L + 1)) L).1
              (Spec.pair hf d (x / 2 ^ (L + 1)) L).2 ∈ a) := by
  obtain ⟨es, h1, h2, h3⟩ := step_log (bs := bs) cf hd sink ⟨fl, s, q, fw, fs⟩ hroot htree
  refine ⟨es, h1, h2, ?_, ?_⟩
  · rintro a node l r b rfl
    obtain ⟨k, L, -, hb, hm, hx⟩ := Trace.split a _ b [] h3
    simp only [sEv, Ev.save.injEq] at hx
    obtain ⟨rfl, rfl, rfl⟩ := hx
    exact ⟨k, L, hb, hm, rfl, rfl⟩
  · rintro a off data b rfl
    obtain ⟨c, e, g1, -, g3, g4, g5⟩ := Trace.split a _ b [] h3
    refine ⟨c, e, g1, g3, g4, fun x hx1 hx2 L hb hm => ?_⟩
    have := g5 x hx1 hx2 L hb hm
    rw [List.append_nil, List.mem_reverse] at this
    exact this

/-- **The slots of the ancestors of delivered chunks hold true pairs.**  After any history into an
io-backed or in-memory outboard (any backing) with the true root and the true geometry there is a
delivered list `wl` as in `C07.inv` (writes of true leaves, the target is the initial target after
`wl`) such that for every delivered byte position `i`, with `c = i / 1024` its chunk, the slot of
every existing ancestor of `c` of level `≥ bs` holds the true pair of that ancestor. -/
theorem ancestors_hold (cf : CollisionFree hf) (hlen : ∀ h, (hf.toBytes h).length = 32)
    (hd : d.length ≤ 2 ^ 63) (hbs : bs ≤ 10) (ops : List Op) (sink : Sink H)
    (hroot : sink.ob.root = Spec.root hf d) (htree : sink.ob.tree = ⟨d.length, bs⟩)
    (hk : sink.ob.kind ≠ .empty) :
    ∃ wl : List (Nat × List UInt8),
      (∀ w ∈ wl, TrueLeaf d w.1 w.2) ∧
      (run hf ops sink).target = applyWrites sink.target wl ∧
      ∀ i, Cov wl i → ∀ L, bs ≤ L → midOf (i / 1024 / 2 ^ (L + 1)) L < nChunks d.length →
        Holds hf d (run hf ops sink).ob (nodeOf (i / 1024 / 2 ^ (L + 1)) L) := by
  obtain ⟨es, P, T, -, -, h1, h2, h3, h4, -⟩ :=
    hist_master (bs := bs) cf hlen hd hbs ops sink hroot htree hk
  refine ⟨FaultL.writes es, trace_trueLeaf h3, ?_, ?_⟩
  · rw [h1, FaultL.applyEvs_target, applyWrites_eq]
  · intro i hc L hb hm
    exact h4 _ L (level_lt_64 hd hm) hb hm (cov_chunk h3 hc L hb hm)

/-! ## Stage C: convergence of the outboard -/

/-- **Convergence of the outboard.**  For an io-backed or in-memory outboard whose backing is not
longer than the outboard size (e.g. pre-sized; an in-memory outboard must be exactly pre-sized for
its saves to succeed): there is a delivered list `wl` as in `C07.inv` such that, once every byte
position of the blob has been delivered, the outboard's backing is exactly the outboard computed
directly from the blob — `Spec.preOutboard hf d bs` for the pre-order kinds, `Spec.postOutboard hf d
bs` for the post-order kinds — and (for a pre-sized target) the target is the blob. -/
theorem converges_outboard (cf : CollisionFree hf) (hlen : ∀ h, (hf.toBytes h).length = 32)
    (hd : d.length ≤ 2 ^ 63) (hbs : bs ≤ 10) (ops : List Op) (sink : Sink H)
    (hroot : sink.ob.root = Spec.root hf d) (htree : sink.ob.tree = ⟨d.length, bs⟩)
    (hk : sink.ob.kind ≠ .empty) (hsz : sink.ob.data.length ≤ sink.ob.tree.outboardSize) :
    ∃ wl : List (Nat × List UInt8),
      (∀ w ∈ wl, TrueLeaf d w.1 w.2) ∧
      (run hf ops sink).target = applyWrites sink.target wl ∧
      ((∀ i, i < d.length → Cov wl i) →
        ((sink.ob.kind = .preIo ∨ sink.ob.kind = .preMem) →
          (run hf ops sink).ob.data = Spec.preOutboard hf d bs) ∧
        ((sink.ob.kind = .postIo ∨ sink.ob.kind = .postMem) →
          (run hf ops sink).ob.data = Spec.postOutboard hf d bs) ∧
        (sink.target.length = d.length → (run hf ops sink).target = d)) := by
  obtain ⟨es, P, T, hp1, hp2, h1, h2, h3, h4, h5⟩ :=
    hist_master (bs := bs) cf hlen hd hbs ops sink hroot htree hk
  have ht : (run hf ops sink).target = applyWrites sink.target (FaultL.writes es) := by
    rw [h1, FaultL.applyEvs_target, applyWrites_eq]
  refine ⟨FaultL.writes es, trace_trueLeaf h3, ht, fun hall => ?_⟩
  obtain ⟨r1, r2, r3⟩ := run_root hf ops sink
  have hdata : (run hf ops sink).ob.data = P.flatMap (Spec.pairBytes hf d) := by
    refine data_eq_of_holds hlen T r3 (r2.trans htree) ?_ ?_
    · have : sink.ob.tree.outboardSize = P.length * 64 := by rw [htree, T.len]; rfl
      omega
    · intro x hx
      obtain ⟨k, L, rfl, hL, hb, hm⟩ := T.coords x hx
      have hsm := Bits.startOf_lt_midOf k L
      have hme := Bits.midOf_lt_endOf k L
      have hpos : startOf k L * 1024 < d.length :=
        Nat.lt_of_le_of_lt (Nat.mul_le_mul_right _ (Nat.le_of_lt hsm))
          ((Offsets.lt_nChunks_iff d.length (midOf k L) (by omega)).1 hm)
      have hdiv : startOf k L * 1024 / 1024 / 2 ^ (L + 1) = k := by
        rw [Nat.mul_div_cancel _ (by decide)]
        exact div_of_mem_range (Nat.le_refl _) (by omega)
      have := cov_chunk h3 (hall _ hpos) L hb (by rw [hdiv]; exact hm)
      rw [hdiv] at this
      exact h4 k L hL hb hm this
  refine ⟨fun hk1 => ?_, fun hk2 => ?_, fun htl => ?_⟩
  · rw [hdata, hp1 hk1]; rfl
  · rw [hdata, hp2 hk2]; rfl
  · rw [ht]; exact applyWrites_full _ sink.target htl (trace_trueLeaf h3) hall

end Bao.C07
